"""Oracles shared by the checks: envelope invariant, refinement against the reference plan."""
import json
import math
import re

from simv.model.exec import OPAQUE, ROOT, _strip


def V(clause, detail, **sig):
    return {"clause": clause, "detail": detail, "sig": sig}


def same(a, b, ordered=True):
    """Strict deep equality: Python type, key order (when ordered), NaN-safe."""
    if b is OPAQUE or a is OPAQUE:
        return True
    if type(a) is not type(b):
        return False
    if isinstance(a, dict):
        if ordered:
            if list(a.keys()) != list(b.keys()):
                return False
        elif set(a.keys()) != set(b.keys()):
            return False
        return all(same(a[k], b[k], ordered) for k in a)
    if isinstance(a, (list, tuple)):
        return len(a) == len(b) and all(same(x, y, ordered) for x, y in zip(a, b))
    if isinstance(a, float):
        return a == b or (math.isnan(a) and math.isnan(b))
    return a == b


def first_diff(a, b, path=()):
    """Human-readable location of the first difference."""
    if b is OPAQUE or a is OPAQUE:
        return None
    if type(a) is not type(b):
        return "%s: %r (%s) != %r (%s)" % (list(path), a, type(a).__name__, b, type(b).__name__)
    if isinstance(a, dict):
        if list(a.keys()) != list(b.keys()):
            return "%s: keys %r != %r" % (list(path), list(a.keys()), list(b.keys()))
        for k in a:
            d = first_diff(a[k], b[k], path + (k,))
            if d:
                return d
        return None
    if isinstance(a, list):
        if len(a) != len(b):
            return "%s: length %d != %d" % (list(path), len(a), len(b))
        for i, (x, y) in enumerate(zip(a, b)):
            d = first_diff(x, y, path + (i,))
            if d:
                return d
        return None
    if a != b and not (isinstance(a, float) and math.isnan(a) and math.isnan(b)):
        return "%s: %r != %r" % (list(path), a, b)
    return None


def check_envelope(resp, text, custom_coercer=False):
    """C18(a): the response envelope.  Monitored on every response of every run."""
    out = []
    if not isinstance(resp, dict):
        return [V("envelope", "response is %s, not a dict" % type(resp).__name__, part="type")]
    if "data" not in resp:
        out.append(V("envelope", "no data key", part="data"))
    extra = set(resp) - {"data", "errors"}
    if extra:
        out.append(V("envelope", "extra keys %r" % sorted(extra), part="keys"))
    if "errors" in resp:
        errs = resp["errors"]
        if not isinstance(errs, list) or not errs:
            out.append(V("envelope", "errors present but %r" % (errs,), part="errors_empty"))
            return out
        if custom_coercer:
            return out
        if isinstance(text, bytes):
            try:
                text = text.decode("utf-8")
            except UnicodeDecodeError:
                text = text.decode("utf-8", "replace")
        # GraphQL line terminators: \n, \r\n and a lone \r
        lines = re.split(r"\r\n|\r|\n", text) if isinstance(text, str) else None
        for e in errs:
            if not isinstance(e, dict):
                out.append(V("envelope", "error entry %r is not a dict" % (e,), part="entry"))
                continue
            if not isinstance(e.get("message"), str):
                out.append(V("envelope", "message is %r" % (e.get("message"),), part="message"))
            if "path" not in e or not (e["path"] is None or isinstance(e["path"], list)):
                out.append(V("envelope", "path is %r" % (e.get("path", "<absent>"),), part="path"))
            locs = e.get("locations")
            if not isinstance(locs, list):
                out.append(V("envelope", "locations is %r" % (locs,), part="locations"))
            else:
                for loc in locs:
                    ok = (isinstance(loc, dict) and set(loc) == {"line", "column"}
                          and all(isinstance(loc[k], int) and not isinstance(loc[k], bool) and loc[k] >= 1
                                  for k in ("line", "column")))
                    if ok and lines is not None:
                        ok = loc["line"] <= len(lines) and loc["column"] <= len(lines[loc["line"] - 1].encode("utf-8")) + 1
                    if not ok:
                        out.append(V("envelope", "location %r outside the query text" % (loc,), part="location"))
            if "extensions" in e and not e["extensions"]:
                out.append(V("envelope", "extensions present but empty", part="extensions"))
            extra = set(e) - {"message", "path", "locations", "extensions"}
            if extra:
                out.append(V("envelope", "error entry has extra keys %r" % sorted(extra), part="entry_keys"))
    try:
        json.dumps(resp, allow_nan=False)
    except (TypeError, ValueError) as ex:
        out.append(V("envelope", "response is not JSON-serialisable: %s" % ex, part="json"))
    return out


def _is_prefix(p, q):
    """p is a proper-or-equal prefix of q; ROOT prefixes everything."""
    if p == ROOT:
        return True
    if q == ROOT:
        return False
    return len(p) <= len(q) and tuple(q[: len(p)]) == tuple(p)


def visible_nulls(plan):
    qs = {e.nulls for e in plan.errors if e.nulls is not None}
    return [q for q in qs if not any(q2 != q and _is_prefix(q2, q) for q2 in qs)]


def in_span(loc, span):
    sl, sc, el, ec = span
    p = (loc["line"], loc["column"])
    return (sl, sc) <= p < (el, ec)


def check_refused(case, plan, resp, rt, events):
    """The request must be refused before anything runs (operation selection / variables)."""
    out = []
    if plan.var_ambiguous and not plan.var_bad and not plan.op_error:
        return out  # the spec leaves the verdict open: accept either
    if resp.get("data") is not None:
        out.append(V("not_refused", "data is %r for a request that must be refused (%s)" % (
            resp.get("data"), plan.op_error or ("bad variables %s" % plan.var_bad)),
            why=plan.op_error or "variables"))
    if not resp.get("errors"):
        out.append(V("not_refused", "no errors for a request that must be refused", why=plan.op_error or "variables"))
    ran = [e for e in events if e[1] in ("start", "type_resolve", "hook")]
    if ran:
        out.append(V("ran_before_refusal", "events %r although the request must be refused" % (ran[:3],),
                     why=plan.op_error or "variables"))
    if plan.var_bad and resp.get("errors") and plan.op:
        for name in plan.var_bad:
            span = plan.op.var_spans.get(name)
            hit = False
            for e in resp["errors"]:
                if isinstance(e, dict):
                    if ("$" + name) in str(e.get("message", "")):
                        hit = True
                    for loc in e.get("locations") or []:
                        if span and isinstance(loc, dict) and in_span(loc, span):
                            hit = True
            if not hit:
                out.append(V("offending_variable_not_reported", "no error mentions $%s" % name, var=name))
    return out


def check_against_plan(case, plan, resp, rt, events, strict_calls=True):
    """Refinement: the response and the resolver-call history against the reference plan."""
    out = []
    if plan.refused:
        return check_refused(case, plan, resp, rt, events)
    data = resp.get("data")
    errs0 = resp.get("errors") or []
    if data is None and errs0 and not rt.calls and all(
            isinstance(e, dict) and (e.get("path") is None or (isinstance(e.get("extensions"), dict) and "rule" in e["extensions"]))
            for e in errs0):
        # answered with request-level errors (validation / operation selection / variables) although
        # the reference accepts the request: one violation instead of a cascade
        e0 = errs0[0]
        tag = (e0.get("extensions") or {}).get("tag") if isinstance(e0.get("extensions"), dict) else None
        return [V("valid_request_refused", "request refused with %r" % (errs0[:2],),
                  tag=tag or str(e0.get("message"))[:40])]
    if not same(data, plan.data):
        out.append(V("data_mismatch", first_diff(data, plan.data) or "differs",
                     has_expected_errors=bool(plan.errors)))
    errors = resp.get("errors") or []
    possible = {}
    for e in plan.errors:
        possible.setdefault(tuple(e.path), []).append(e)
    if not plan.errors and errors:
        out.append(V("error_without_failure", "errors %r but nothing failed" % (errors[:2],)))
    got_paths = []
    for err in errors:
        if not isinstance(err, dict):
            continue
        p = err.get("path")
        if p is None:
            out.append(V("error_without_path", "execution error without path: %r" % (err,)))
            continue
        p = tuple(p)
        got_paths.append(p)
        if p not in possible:
            if plan.errors:
                out.append(V("error_path_wrong", "error path %r is not a failure site; failure sites: %r" % (
                    list(p), sorted(map(list, possible), key=repr)[:6])))
            continue
        exp = possible[p]
        nodes = plan.field_nodes.get(_strip(p), [])
        spans = [n.span for n in nodes if n.span]
        for loc in err.get("locations") or []:
            if isinstance(loc, dict) and spans and not any(in_span(loc, s) for s in spans):
                out.append(V("location_outside_field", "location %r not inside the field's text %r (path %r)" % (
                    loc, spans, list(p))))
        if not err.get("locations"):
            out.append(V("location_missing", "no location for error at %r" % (list(p),)))
        if len(exp) == 1:
            e = exp[0]
            if e.tf is not None:
                if err.get("message") != e.tf[0] or err.get("extensions") != e.tf[1]:
                    out.append(V("library_error_not_preserved", "expected message %r extensions %r, got %r / %r" % (
                        e.tf[0], e.tf[1], err.get("message"), err.get("extensions"))))
            elif e.token and e.kind in ("raise", "exception_value"):
                # messages are free (an implementation may mask them), but a message that carries the
                # unique token of ANOTHER injected fault is attributed to the wrong failure
                msg = str(err.get("message"))
                if e.token not in msg:
                    other = [x for x in plan.errors if x.token and x.token != e.token and x.token in msg and tuple(x.path) != p]
                    if other:
                        out.append(V("error_misattributed", "error at %r carries the token of the fault at %r: %r" % (
                            list(p), list(other[0].path), msg)))
    for q in visible_nulls(plan):
        causes = {tuple(e.path) for e in plan.errors if e.nulls == q}
        if not any(p in causes for p in got_paths):
            out.append(V("unexplained_null", "position %r is null but no error has a path in %r; got %r" % (
                "data" if q == ROOT else list(q), sorted(map(list, causes), key=repr), list(map(list, got_paths)))))
    out.extend(check_calls(plan, rt, strict_calls))
    return out


def check_calls(plan, rt, strict=True):
    out = []
    expected = {}
    for c in plan.calls:
        expected[c.path] = c
    seen = {}
    for path, coord, parent, args, ctx_ok, info_coord in rt.calls:
        seen[path] = seen.get(path, 0) + 1
        c = expected.get(path)
        if c is None or c.args is None:
            out.append(V("unexpected_call", "resolver %s called at %r, which the algorithm does not call" % (
                coord, list(path))))
            continue
        if seen[path] > 1:
            out.append(V("resolver_called_twice", "resolver at %r called %d times" % (list(path), seen[path])))
            continue
        if coord != c.coord or info_coord != c.coord:
            out.append(V("wrong_resolver", "at %r expected %s, got %s (info says %s)" % (list(path), c.coord, coord, info_coord)))
        if parent is not c.parent:
            out.append(V("wrong_parent", "resolver at %r received parent %r, expected %r" % (list(path), parent, c.parent)))
        if not ctx_ok:
            out.append(V("wrong_context", "resolver at %r did not receive the caller's context" % (list(path),)))
        if not same(args, c.args, ordered=False):
            out.append(V("wrong_arguments", "resolver at %r received %r, expected %r" % (list(path), args, c.args)))
    for path, root in getattr(rt, "seen_roots", ()):
        if root is not plan.root_value:
            out.append(V("wrong_root_value", "resolver at %r saw info.root_value %r, the request's root value is %r" % (
                list(path), root, plan.root_value)))
            break
    cfg = getattr(rt, "engine_cfg", None) or {}
    if cfg.get("dr"):
        # the engine was cooked with a custom default resolver: it (not the built-in one) resolves
        # every field that has no resolver of its own, once
        times = {}
        for p in rt.default_calls:
            times[p] = times.get(p, 0) + 1
        nulls = visible_nulls(plan)
        for path in getattr(plan, "default_sites", {}):
            n = times.get(path, 0)
            if n > 1:
                out.append(V("resolver_called_twice", "custom default resolver called %d times at %r" % (n, list(path))))
            elif n == 0 and strict and not any(q == ROOT or (q != path and _is_prefix(q, path)) for q in nulls):
                out.append(V("custom_default_resolver_not_used", "the field at %r has no resolver of its own and the engine's "
                             "custom_default_resolver was not called for it" % (list(path),)))
                break
    if (cfg.get("dtr") and strict and not rt.default_type_calls and not rt.override and not rt.type_override
            and not getattr(plan, "faults_fired", None) and not plan.errors and getattr(plan, "default_type_resolutions", 0)):
        out.append(V("custom_default_type_resolver_not_used", "%d abstract positions without a type resolver of their own "
                     "were completed and the engine's custom_default_type_resolver was never called" % plan.default_type_resolutions))
    if strict:
        nulls = visible_nulls(plan)
        for path, c in expected.items():
            if c.args is None:
                continue
            doomed = any(q == ROOT or (q != path and _is_prefix(q, path)) for q in nulls)
            if not doomed and path not in seen:
                out.append(V("resolver_not_called", "resolver %s at %r was never called" % (c.coord, list(path))))
    return out
