"""Python stand-in for the absent libgraphqlparser C library (see DESIGN.md section 1).

Parses an executable GraphQL document (UTF-8 bytes) and produces the JSON AST
in libgraphqlparser's JsonVisitor format.  Installed by wrapping cffi.FFI.dlopen.
"""
import json
import re

PUNCT = {"!", "$", "(", ")", ":", "=", "@", "[", "]", "{", "}", "|", "&"}
_NAME_RE = re.compile(rb"[_A-Za-z][_0-9A-Za-z]*")
_NUM_RE = re.compile(rb"-?(?:0|[1-9][0-9]*)(\.[0-9]+)?([eE][+-]?[0-9]+)?")
_ESC = {'"': '"', "\\": "\\", "/": "/", "b": "\b", "f": "\f", "n": "\n", "r": "\r", "t": "\t"}


class GqlSyntaxError(Exception):
    pass


class Tok:
    __slots__ = ("kind", "value", "sl", "sc", "el", "ec")

    def __init__(self, kind, value, sl, sc, el, ec):
        self.kind, self.value, self.sl, self.sc, self.el, self.ec = kind, value, sl, sc, el, ec

    def __repr__(self):
        return f"{self.kind}:{self.value!r}@{self.sl}.{self.sc}"


def _err(line, col, msg):
    raise GqlSyntaxError(f"{line}.{col}: syntax error, {msg}")


def lex(src: bytes):
    toks = []
    i, n = 0, len(src)
    line, col = 1, 1
    if src.startswith(b"\xef\xbb\xbf"):
        i = 3
    while i < n:
        c = src[i : i + 1]
        if c in b" \t,":
            i += 1
            col += 1
            continue
        if c == b"\n":
            i += 1
            line += 1
            col = 1
            continue
        if c == b"\r":
            i += 1
            if src[i : i + 1] == b"\n":
                i += 1
            line += 1
            col = 1
            continue
        if c == b"#":
            while i < n and src[i : i + 1] not in b"\r\n":
                i += 1
                col += 1
            continue
        if src[i : i + 3] == b"...":
            toks.append(Tok("...", "...", line, col, line, col + 3))
            i += 3
            col += 3
            continue
        ch = c.decode("latin-1")
        if ch in PUNCT:
            toks.append(Tok(ch, ch, line, col, line, col + 1))
            i += 1
            col += 1
            continue
        m = _NAME_RE.match(src, i)
        if m:
            s = m.group(0).decode()
            toks.append(Tok("NAME", s, line, col, line, col + len(s)))
            i = m.end()
            col += len(s)
            continue
        m = _NUM_RE.match(src, i)
        if m:
            s = m.group(0).decode()
            kind = "FLOAT" if (m.group(1) or m.group(2)) else "INT"
            toks.append(Tok(kind, s, line, col, line, col + len(s)))
            i = m.end()
            col += len(s)
            continue
        if src[i : i + 3] == b'"""':
            sl, sc = line, col
            j = i + 3
            col += 3
            raw = bytearray()
            while True:
                if j >= n:
                    _err(line, col, "unterminated block string")
                if src[j : j + 3] == b'"""':
                    j += 3
                    col += 3
                    break
                if src[j : j + 4] == b'\\"""':
                    raw += b'"""'
                    j += 4
                    col += 4
                    continue
                b = src[j : j + 1]
                if b == b"\n":
                    line += 1
                    col = 1
                else:
                    col += 1
                raw += b
                j += 1
            toks.append(Tok("STRING", _block_string(raw.decode("utf-8", "replace")), sl, sc, line, col))
            i = j
            continue
        if c == b'"':
            sl, sc = line, col
            j = i + 1
            col += 1
            out = []
            while True:
                if j >= n:
                    _err(line, col, "unterminated string")
                b = src[j : j + 1]
                if b == b'"':
                    j += 1
                    col += 1
                    break
                if b in b"\r\n":
                    _err(line, col, "unterminated string")
                if b == b"\\":
                    e = src[j + 1 : j + 2].decode("latin-1")
                    if e == "u":
                        hx = src[j + 2 : j + 6]
                        if len(hx) != 4 or not re.fullmatch(rb"[0-9a-fA-F]{4}", hx):
                            _err(line, col, "bad unicode escape")
                        out.append(chr(int(hx, 16)).encode("utf-8", "surrogatepass"))
                        j += 6
                        col += 6
                        continue
                    if e not in _ESC:
                        _err(line, col, "bad escape sequence")
                    out.append(_ESC[e].encode())
                    j += 2
                    col += 2
                    continue
                out.append(b)
                j += 1
                col += 1
            val = b"".join(out).decode("utf-8", "replace")
            toks.append(Tok("STRING", val, sl, sc, line, col))
            i = j
            continue
        _err(line, col, f"unexpected character {ch!r}")
    toks.append(Tok("EOF", None, line, col, line, col))
    return toks


def _block_string(raw):
    lines = re.split(r"\r\n|[\n\r]", raw)
    common = None
    for ln in lines[1:]:
        indent = len(ln) - len(ln.lstrip(" \t"))
        if indent < len(ln) and (common is None or indent < common):
            common = indent
    if common:
        lines = [lines[0]] + [ln[common:] for ln in lines[1:]]
    while lines and not lines[0].strip(" \t"):
        lines.pop(0)
    while lines and not lines[-1].strip(" \t"):
        lines.pop()
    return "\n".join(lines)


def _loc(sl, sc, el, ec):
    return {"start": {"line": sl, "column": sc}, "end": {"line": el, "column": ec}}


TYPE_SYSTEM_KW = {
    "schema": "SchemaDefinition",
    "scalar": "ScalarTypeDefinition",
    "type": "ObjectTypeDefinition",
    "interface": "InterfaceTypeDefinition",
    "union": "UnionTypeDefinition",
    "enum": "EnumTypeDefinition",
    "input": "InputObjectTypeDefinition",
    "extend": "TypeExtensionDefinition",
    "directive": "DirectiveDefinition",
}


class Parser:
    def __init__(self, src: bytes):
        self.t = lex(src)
        self.p = 0

    # helpers
    @property
    def cur(self):
        return self.t[self.p]

    def peek(self, k=1):
        return self.t[min(self.p + k, len(self.t) - 1)]

    def adv(self):
        tok = self.t[self.p]
        self.p += 1
        return tok

    def fail(self, tok=None, expecting=None):
        tok = tok or self.cur
        what = "end of file" if tok.kind == "EOF" else (tok.value if tok.kind in PUNCT or tok.kind == "..." else tok.kind)
        msg = f"unexpected {what}"
        if expecting:
            msg += f", expecting {expecting}"
        _err(tok.sl, tok.sc, msg)

    def expect(self, kind):
        if self.cur.kind != kind:
            self.fail(expecting=kind)
        return self.adv()

    def node(self, kind, first, last, **fields):
        d = {"kind": kind, "loc": _loc(first.sl, first.sc, last.el, last.ec)}
        d.update(fields)
        return d

    def last(self):
        return self.t[self.p - 1]

    # grammar
    def document(self):
        defs = []
        if self.cur.kind == "EOF":
            self.fail()
        first = self.cur
        while self.cur.kind != "EOF":
            defs.append(self.definition())
        return self.node("Document", first, self.last(), definitions=defs)

    def definition(self):
        tok = self.cur
        if tok.kind == "{":
            return self.operation(None)
        if tok.kind == "NAME":
            if tok.value in ("query", "mutation", "subscription"):
                return self.operation(tok.value)
            if tok.value == "fragment":
                return self.fragment_definition()
            if tok.value in TYPE_SYSTEM_KW:
                return self.type_system_definition()
        self.fail()

    def name(self):
        tok = self.expect("NAME")
        return self.node("Name", tok, tok, value=tok.value)

    def operation(self, optype):
        first = self.cur
        name = None
        vardefs = None
        directives = None
        if optype is not None:
            self.adv()
            if self.cur.kind == "NAME":
                name = self.name()
            if self.cur.kind == "(":
                self.adv()
                vardefs = []
                if self.cur.kind == ")":
                    self.fail()
                while self.cur.kind != ")":
                    vardefs.append(self.variable_definition())
                self.adv()
            directives = self.directives(False)
        ss = self.selection_set()
        return self.node(
            "OperationDefinition", first, self.last(),
            operation=optype or "query", name=name, variableDefinitions=vardefs,
            directives=directives, selectionSet=ss,
        )

    def variable(self):
        first = self.expect("$")
        nm = self.name()
        return self.node("Variable", first, self.last(), name=nm)

    def variable_definition(self):
        first = self.cur
        var = self.variable()
        self.expect(":")
        typ = self.type()
        default = None
        if self.cur.kind == "=":
            self.adv()
            default = self.value(True)
        return self.node("VariableDefinition", first, self.last(), variable=var, type=typ, defaultValue=default)

    def type(self):
        first = self.cur
        if first.kind == "[":
            self.adv()
            inner = self.type()
            self.expect("]")
            typ = self.node("ListType", first, self.last(), type=inner)
        else:
            nm = self.name()
            typ = self.node("NamedType", first, self.last(), name=nm)
        if self.cur.kind == "!":
            self.adv()
            typ = self.node("NonNullType", first, self.last(), type=typ)
        return typ

    def selection_set(self):
        first = self.expect("{")
        sels = []
        if self.cur.kind == "}":
            self.fail()
        while self.cur.kind != "}":
            sels.append(self.selection())
        self.adv()
        return self.node("SelectionSet", first, self.last(), selections=sels)

    def selection(self):
        if self.cur.kind == "...":
            return self.fragment()
        return self.field()

    def field(self):
        first = self.cur
        nm = self.name()
        alias = None
        if self.cur.kind == ":":
            self.adv()
            alias = nm
            nm = self.name()
        args = self.arguments(False)
        directives = self.directives(False)
        ss = self.selection_set() if self.cur.kind == "{" else None
        return self.node("Field", first, self.last(), alias=alias, name=nm, arguments=args, directives=directives, selectionSet=ss)

    def arguments(self, const):
        if self.cur.kind != "(":
            return None
        self.adv()
        args = []
        if self.cur.kind == ")":
            self.fail()
        while self.cur.kind != ")":
            first = self.cur
            nm = self.name()
            self.expect(":")
            val = self.value(const)
            args.append(self.node("Argument", first, self.last(), name=nm, value=val))
        self.adv()
        return args

    def directives(self, const):
        if self.cur.kind != "@":
            return None
        out = []
        while self.cur.kind == "@":
            first = self.adv()
            nm = self.name()
            args = self.arguments(const)
            out.append(self.node("Directive", first, self.last(), name=nm, arguments=args))
        return out

    def fragment(self):
        first = self.expect("...")
        if self.cur.kind == "NAME" and self.cur.value != "on":
            nm = self.name()
            directives = self.directives(False)
            return self.node("FragmentSpread", first, self.last(), name=nm, directives=directives)
        cond = None
        if self.cur.kind == "NAME" and self.cur.value == "on":
            self.adv()
            t = self.cur
            n2 = self.name()
            cond = self.node("NamedType", t, t, name=n2)
        directives = self.directives(False)
        ss = self.selection_set()
        return self.node("InlineFragment", first, self.last(), typeCondition=cond, directives=directives, selectionSet=ss)

    def fragment_definition(self):
        first = self.adv()
        if self.cur.kind == "NAME" and self.cur.value == "on":
            self.fail()
        nm = self.name()
        on = self.expect("NAME")
        if on.value != "on":
            self.fail(on, "on")
        t = self.cur
        n2 = self.name()
        cond = self.node("NamedType", t, t, name=n2)
        directives = self.directives(False)
        ss = self.selection_set()
        return self.node("FragmentDefinition", first, self.last(), name=nm, typeCondition=cond, directives=directives, selectionSet=ss)

    def value(self, const):
        tok = self.cur
        k = tok.kind
        if k == "$":
            if const:
                self.fail()
            return self.variable()
        if k == "INT":
            self.adv()
            return self.node("IntValue", tok, tok, value=tok.value)
        if k == "FLOAT":
            self.adv()
            return self.node("FloatValue", tok, tok, value=tok.value)
        if k == "STRING":
            self.adv()
            return self.node("StringValue", tok, tok, value=tok.value)
        if k == "NAME":
            self.adv()
            if tok.value in ("true", "false"):
                return self.node("BooleanValue", tok, tok, value=tok.value == "true")
            if tok.value == "null":
                return self.node("NullValue", tok, tok)
            return self.node("EnumValue", tok, tok, value=tok.value)
        if k == "[":
            self.adv()
            vals = []
            while self.cur.kind != "]":
                vals.append(self.value(const))
            self.adv()
            return self.node("ListValue", tok, self.last(), values=vals)
        if k == "{":
            self.adv()
            fields = []
            while self.cur.kind != "}":
                f = self.cur
                nm = self.name()
                self.expect(":")
                v = self.value(const)
                fields.append(self.node("ObjectField", f, self.last(), name=nm, value=v))
            self.adv()
            return self.node("ObjectValue", tok, self.last(), fields=fields)
        self.fail()

    # type system definitions: parsed only far enough to find their extent
    def type_system_definition(self):
        first = self.adv()
        kind = TYPE_SYSTEM_KW[first.value]
        depth = 0
        while True:
            tok = self.cur
            if tok.kind == "EOF":
                if depth:
                    self.fail()
                break
            if tok.kind in ("{", "(", "["):
                depth += 1
            elif tok.kind in ("}", ")", "]"):
                depth -= 1
                if depth < 0:
                    self.fail()
            elif depth == 0 and tok.kind == "NAME" and tok.value in (
                "query", "mutation", "subscription", "fragment", *TYPE_SYSTEM_KW
            ) and self.last().kind not in (":", "@", "|", "=", "&") and self.last() is not first and not (
                first.value == "extend" and self.last() is first
            ):
                # next definition starts (heuristic; keywords used as plain names inside
                # a body are at depth > 0)
                if not (self.last().kind == "NAME" and self.last().value in ("on", "implements", "extend")):
                    break
            elif depth == 0 and tok.kind == "{" :
                pass
            self.adv()
            if depth == 0 and self.last().kind == "}":
                break
        return self.node(kind, first, self.last())


def _emit(node, out):
    """Serialise like libgraphqlparser's JsonVisitor (byte-exact "loc" spacing)."""
    if isinstance(node, dict):
        out.append("{")
        first = True
        for k, v in node.items():
            if not first:
                out.append(",")
            first = False
            if k == "loc":
                s, e = v["start"], v["end"]
                out.append(
                    '"loc":{"start": {"line": %d,"column":%d}, "end": {"line":%d,"column":%d}}'
                    % (s["line"], s["column"], e["line"], e["column"])
                )
                continue
            out.append(json.dumps(k))
            out.append(":")
            _emit(v, out)
        out.append("}")
    elif isinstance(node, list):
        out.append("[")
        for i, v in enumerate(node):
            if i:
                out.append(",")
            _emit(v, out)
        out.append("]")
    else:
        out.append(json.dumps(node, ensure_ascii=False))


def parse_to_json(src: bytes) -> bytes:
    doc = Parser(src).document()
    out = []
    _emit(doc, out)
    return "".join(out).encode("utf-8", "surrogatepass")


class FakeLib:
    def __init__(self, ffi):
        self.ffi = ffi
        self._keep = []
        self.NULL = ffi.NULL

    def graphql_parse_string(self, text, errors):
        src = self.ffi.string(text)
        try:
            return {"json": parse_to_json(src)}
        except GqlSyntaxError as e:
            buf = self.ffi.new("char[]", str(e).encode("utf-8"))
            self._keep.append(buf)
            errors[0] = buf
            return None
        except RecursionError:
            buf = self.ffi.new("char[]", b"1.1: syntax error, document too deeply nested")
            self._keep.append(buf)
            errors[0] = buf
            return None

    def graphql_error_free(self, err):
        self._keep.clear()

    def graphql_node_free(self, node):
        pass

    def graphql_ast_to_json(self, node):
        buf = self.ffi.new("char[]", node["json"])
        self._keep = [buf]
        return buf


def install():
    import cffi

    if getattr(cffi.FFI, "_simv_patched", False):
        return
    orig = cffi.FFI.dlopen

    def dlopen(self, name, flags=0):
        if "libgraphqlparser" in str(name):
            return FakeLib(self)
        return orig(self, name, flags)

    cffi.FFI.dlopen = dlopen
    cffi.FFI._simv_patched = True
