"""Harness actors: resolvers, type resolvers, scalars registered on the real engine.

Actors are the workload, not a stub of the system.  A resolver actor records start/finish events
and exactly what it received, suspends at a simulator point, then serves the result the reference
executor planned for its response path (or the injected fault)."""
import asyncio
import copy
import zlib

from simv import boot  # noqa: F401  (installs the parser stub and imports the repo's tartiflette)
from simv.model.exec import FaultError, peek
from simv.model.schema import print_sdl

from tartiflette import Directive, Resolver, Scalar, Subscription, TartifletteError, TypeResolver, create_engine
from tartiflette.constants import UNDEFINED_VALUE
from tartiflette.language.ast import IntValueNode, StringValueNode
from tartiflette.resolver.default import gather_arguments_coercer, sync_arguments_coercer
from tartiflette.schema.registry import SchemaRegistry


class UserError(TartifletteError):
    """An application error derived from the library's error class."""


class AppBaseException(BaseException):
    """An application failure that does not derive from Exception."""


class KeyedError(UserError):
    """A library-error subclass with its own constructor signature (cannot be rebuilt from `args`)."""

    def __init__(self, shown, key, *, extensions, developer=None):
        if developer is not None:
            super().__init__(developer, user_message=shown, extensions=extensions)
        else:
            super().__init__(shown, extensions=extensions)
        self.key = key


class Runtime:
    """Per-request state shared between the client and the actors of that request."""

    def __init__(self, rid, loop, plan, suspend=True):
        self.rid = rid
        self.loop = loop
        self.plan = plan
        self.calls = []  # (path, coord, parent, args, ctx_ok)
        self.seen_vars = []  # info.variable_values as seen by each resolver call
        self.seen_roots = []  # (path, info.root_value) as seen by each resolver call
        self.started = {}
        self.finished = {}
        self.suspend = suspend
        self.foreign_ctx = 0
        self.type_calls = 0
        self.arg_refs = []  # argument dictionaries handed to resolvers (consumed after the response)
        self.default_calls = []  # paths at which a custom default resolver was called
        self.default_type_calls = 0
        self.engine_cfg = {}
        self.shared = None  # dict shared by the requests of a batch (one exception instance for all)
        self.override = None  # path -> raw value (C03: adversarial results)
        self.type_override = None  # path -> what the harness type resolver returns there (C03)
        self.lag_points = 0  # suspension points taken inside argument / input coercion
        # resolvers consume (mutate) the argument dictionary they were given; only sound when no
        # argument value comes from a variable (coerced variable values are shared by all their uses)
        self.scramble_args = False
        self.event_plans = []  # subscriptions: [(payload, plan)] in source order
        self.event_calls = []
        self.event_roots = []
        self.source_args = []


class ReqCtx:
    """The caller's context object."""

    def __init__(self, rt):
        self.rt = rt

    def __repr__(self):
        return "<ReqCtx %s>" % self.rt.rid


def _rt_of(ctx):
    rt = getattr(ctx, "rt", None)
    if rt is None and isinstance(ctx, dict):
        rt = ctx.get("rt")
    if rt is None:
        loop = asyncio.get_running_loop()
        rt = getattr(loop, "default_rt", None)
    return rt


_ADDR = __import__("re").compile(r" at 0x[0-9a-fA-F]+")


def canon(v):
    """Deterministic, hash-seed independent rendering of a value."""
    if isinstance(v, dict):
        return "{" + ",".join("%s:%s" % (canon(k), canon(x)) for k, x in v.items()) + "}"
    if isinstance(v, (list, tuple)):
        return "[" + ",".join(canon(x) for x in v) + "]"
    if isinstance(v, float):
        return repr(v)
    if isinstance(v, (set, frozenset)):
        return "set(" + ",".join(sorted(canon(x) for x in v)) + ")"
    if type(v) is str and " at 0x" in v:
        # a message quoting the default repr of an object: the address differs from process to process
        return repr(_ADDR.sub(" at 0x?", v))
    if isinstance(v, (str, int, bool, type(None))) and type(v) in (str, int, bool, type(None)):
        return repr(v)
    try:
        r = repr(v)
    except Exception:  # noqa: BLE001
        r = "<unreprable>"
    if " at 0x" in r:
        r = "<obj>"
    return "%s:%s" % (type(v).__name__, r)


def _scramble(v):
    """Mutate a received argument structure in place (pop / append / overwrite at every level)."""
    if isinstance(v, dict):
        for k in list(v):
            _scramble(v[k])
        v.clear()
        v["__consumed__"] = True
    elif isinstance(v, list):
        for x in v:
            _scramble(x)
        v.append("__consumed__")


def consume_args(rt):
    """The application keeps the argument dictionaries it was given and consumes (mutates) them after
    the response was produced: whatever a request received belongs to that request, so this can only
    show up if the engine hands the same coerced objects (literals, variable defaults) to later requests."""
    refs, rt.arg_refs = rt.arg_refs, []
    for a in refs:
        _scramble(a)


def make_resolver(coord, bundle=None):
    async def actor(parent, args, ctx, info):
        rt = _rt_of(ctx)
        path = tuple(info.path.as_list())
        loop = rt.loop
        if bundle is not None and getattr(rt, "bundle", None) is not None and rt.bundle != bundle:
            loop.ev("foreign_actor", rt.rid, bundle, rt.bundle, path)
        loop.ev("start", rt.rid, path)
        rt.started[path] = rt.started.get(path, 0) + 1
        ctx_ok = getattr(ctx, "rt", None) is rt
        rt.calls.append((path, coord, parent, copy.deepcopy(args) if isinstance(args, dict) else args, ctx_ok,
                         (info.parent_type.name, info.field_name)))
        if isinstance(args, dict) and rt.scramble_args:
            _scramble(args)  # the argument dictionary belongs to this call: a resolver may consume it
        elif isinstance(args, dict):
            rt.arg_refs.append(args)  # consumed once the request is over (see consume_args)
        try:
            rt.seen_vars.append(copy.deepcopy(info.variable_values))  # a snapshot: the values may be consumed later
        except Exception:  # noqa: BLE001
            rt.seen_vars.append(info.variable_values)
        rt.seen_roots.append((path, info.root_value))
        if rt.suspend:
            await loop.point((rt.rid,) + path)
        loop.ev("finish", rt.rid, path)
        rt.finished[path] = rt.finished.get(path, 0) + 1
        if rt.override is not None and path in rt.override:
            return rt.override[path]
        outcome = rt.plan.results.get(path) if rt.plan is not None else None
        if outcome is None:
            loop.ev("unplanned", rt.rid, path)
            return None
        if outcome[0] == "raise":
            _, kind, tok, tf = outcome
            if kind == "raise_tf":
                if zlib.crc32(repr(path).encode()) % 3 == 0:
                    raise KeyedError(tf[0], "k", extensions=dict(tf[1]), developer=tf[2] if len(tf) > 2 else None)
                preset = {"path": list(path)} if zlib.crc32(repr(path).encode()) % 5 == 1 else {}  # the application located it itself
                if len(tf) > 2 and tf[2] is not None:
                    raise UserError(tf[2], user_message=tf[0], extensions=dict(tf[1]), **preset)
                raise UserError(tf[0], extensions=dict(tf[1]), **preset)
            if kind == "raise_odd":
                from simv.model.exec import EmptyMessageError, FrozenError, PathCarryingError, PayloadError, UnprintableError
                crc = zlib.crc32(repr(path).encode())
                if crc % 11 == 7:
                    # what `TABLE[args["id"]]` raises for an unknown key: a built-in exception whose first
                    # argument is not a string (its str() is the repr of the key)
                    raise KeyError(crc % 1000 if crc % 2 else (crc % 7, "k"))
                which = crc % 5
                if which == 4:
                    raise FrozenError("odd " + tok)
                if which == 0:
                    raise UnprintableError()
                if which == 1:
                    raise EmptyMessageError()
                if which == 3:
                    raise PayloadError("odd " + tok)
                raise PathCarryingError("odd " + tok)
            if kind == "raise_base":
                # a failure that is not an `Exception`: the resolver awaits something that somebody else
                # cancelled (CancelledError raised INSIDE the resolver, the request itself is not cancelled),
                # or the application raises its own BaseException subclass
                if zlib.crc32(repr(path).encode()) % 2 == 0:
                    fut = loop.create_future()
                    fut.cancel()
                    await fut
                raise AppBaseException("base " + tok)
            if kind == "raise_shared":
                pool = rt.shared if rt.shared is not None else rt.__dict__.setdefault("_own_shared", {})
                if "exc" not in pool:
                    pool["exc"] = UserError("shared application error")
                raise pool["exc"]
            raise FaultError(tok)
        return outcome[1]

    actor.__name__ = "res_%s_%s" % coord
    return actor


def make_type_resolver(key, as_object, is_async=False):
    """is_async: the documented `async def` form of a type resolver (docs/api/type-resolver.md, engine.md)."""
    if is_async:
        sync_actor = make_type_resolver(key, as_object)

        async def async_type_actor(result, ctx, info, abstract_type):
            return sync_actor(result, ctx, info, abstract_type)

        return async_type_actor

    def type_actor(result, ctx, info, abstract_type):
        rt = _rt_of(ctx)
        if rt is not None:
            rt.type_calls += 1
            rt.loop.ev("type_resolve", rt.rid, key, abstract_type.name)
        tfaults = getattr(rt.plan, "type_faults", None) if (rt is not None and rt.plan is not None) else None
        if tfaults:
            p0 = tuple(info.path.as_list())
            if p0 in tfaults:
                tf = tfaults[p0]
                raise UserError(tf[0], extensions=dict(tf[1]))
        if rt is not None and rt.type_override:
            p = tuple(info.path.as_list())
            if p in rt.type_override:
                return rt.type_override[p]
        tn = peek(result, key)
        if tn is None:
            return "Nope"
        if as_object:
            try:
                return info.schema.find_type(tn)
            except KeyError:
                return tn
        return tn

    return type_actor


class XStr:
    def coerce_output(self, value):
        if not isinstance(value, str):
            raise TypeError("XStr cannot represent %r" % (value,))
        if value == "nil":
            return None  # a scalar may serialise a value to null: then the position is null
        return "x:" + value

    def coerce_input(self, value):
        if not isinstance(value, str) or not value.startswith("x:"):
            raise TypeError("XStr cannot parse %r" % (value,))
        return value[2:]

    def parse_literal(self, ast):
        if isinstance(ast, StringValueNode) and ast.value.startswith("x:"):
            return ast.value[2:]
        return UNDEFINED_VALUE


class XNum:
    def coerce_output(self, value):
        if isinstance(value, bool) or not isinstance(value, int):
            raise TypeError("XNum cannot represent %r" % (value,))
        return value + 1000

    def coerce_input(self, value):
        if isinstance(value, bool) or not isinstance(value, int):
            raise TypeError("XNum cannot parse %r" % (value,))
        return value - 1000

    def parse_literal(self, ast):
        if isinstance(ast, IntValueNode):
            return int(ast.value) - 1000
        return UNDEFINED_VALUE


def make_source(coord):
    """Subscription source: yields the run's planned event payloads, pausing at a scheduler point
    before each; switches the request's active plan to the event's plan."""
    async def source(parent, args, ctx, info):
        rt = _rt_of(ctx)
        loop = rt.loop
        loop.ev("source_start", rt.rid, coord, canon(args))
        rt.source_args.append(copy.deepcopy(args) if isinstance(args, dict) else args)
        if isinstance(args, dict):
            rt.arg_refs.append(args)
        for k, (payload, plan) in enumerate(rt.event_plans):
            await loop.point((rt.rid, "source", k))
            rt.plan = plan
            rt.calls = []
            rt.event_calls.append(rt.calls)
            rt.seen_roots = []
            rt.event_roots.append(rt.seen_roots)
            loop.ev("event", rt.rid, k)
            yield payload
        await loop.point((rt.rid, "source", "end"))
        loop.ev("source_end", rt.rid)

    return source


def register_lag(name):
    class Lag:
        async def on_argument_execution(self, da, nxt, parent_node, arg_def, arg_node, value, ctx):
            rt = _rt_of(ctx)
            if rt is not None:
                rt.lag_points += 1
                await rt.loop.point((rt.rid, "lag-arg", rt.lag_points))
            return await nxt(parent_node, arg_def, arg_node, value, ctx)

        async def on_post_input_coercion(self, da, nxt, parent_node, value, ctx):
            rt = _rt_of(ctx)
            if rt is not None:
                rt.lag_points += 1
                await rt.loop.point((rt.rid, "lag-in", rt.lag_points))
            return await nxt(parent_node, value, ctx)

    Directive("lag", schema_name=name)(Lag())


def bundle_steps(schema, name, type_as_object=False, bundle=None, async_type_resolvers=False):
    """The registrations of a schema model under a schema name, one callable per registered object:
    [(kind, label, callable)] with kind in resolver|type_resolver|scalar|subscription."""
    steps = []
    if "lag" in schema.directives:
        steps.append(("directive", "lag", lambda: register_lag(name)))
    if schema.subscription:
        for f in schema.t(schema.subscription).fields.values():
            coord = (schema.subscription, f.name)
            steps.append(("subscription", "%s.%s" % coord,
                          lambda coord=coord: Subscription("%s.%s" % coord, schema_name=name)(make_source(coord))))
    for td in list(schema.types.values()):
        if td.kind == "OBJECT":
            for f in td.fields.values():
                if f.impl != "resolver":
                    continue

                def reg(td=td, f=f):
                    kw = {}
                    if f.field_type_resolver:
                        kw["type_resolver"] = make_type_resolver("_tn_field", type_as_object, async_type_resolvers and zlib.crc32(("%s.%s" % (td.name, f.name)).encode()) % 2 == 0)
                    if f.ac:
                        kw["arguments_coercer"] = gather_arguments_coercer if f.ac == "gather" else sync_arguments_coercer
                    Resolver("%s.%s" % (td.name, f.name), schema_name=name, list_concurrently=f.lc,
                             parent_concurrently=f.pc, **kw)(make_resolver((td.name, f.name), bundle))
                steps.append(("resolver", "%s.%s" % (td.name, f.name), reg))
        elif td.kind in ("INTERFACE", "UNION") and td.type_resolver:
            steps.append(("type_resolver", td.name,
                          lambda td=td: TypeResolver(td.name, schema_name=name)(make_type_resolver(
                              "_tn_type", type_as_object, async_type_resolvers and zlib.crc32(td.name.encode()) % 2 == 1))))
        elif td.kind == "SCALAR" and td.custom:
            steps.append(("scalar", td.name,
                          lambda td=td: Scalar(td.name, schema_name=name)(XStr() if td.custom == "xstr" else XNum())))
    return steps


def register_bundle(schema, name, type_as_object=False, bundle=None, async_type_resolvers=False):
    """Register resolvers / type resolvers / scalars / sources of a schema model under a schema name."""
    for _, _, fn in bundle_steps(schema, name, type_as_object, bundle, async_type_resolvers):
        fn()


ENGINE_CONFIGS = [
    dict(lc=lc, pc=pc, ac=ac)
    for lc in (None, False) for pc in (None, False) for ac in (None, "sync")
]
# ... each also built in a different (documented as equivalent) way, with or without custom defaults
for _i, _c in enumerate(ENGINE_CONFIGS):
    _c.update(build=["create_engine", "ctor", "cook_args", "split", "cook_twice"][_i % 5], dr=_i % 2 == 1, dtr=_i % 3 == 1,
              ec=_i % 4 == 2, jl=_i % 4 == 3, sdl_file=_i == 5, atr=_i % 3 == 2)


MARK_SDL = "\ndirective @mark(k: Int!, deep: [[Int]]) on FIELD\n"


def register_mark(name):
    """A query-side directive whose effect depends on its (variable) argument: odd k fails the field."""
    class Mark:
        async def on_field_execution(self, da, nxt, parent, args, ctx, info):
            rt = _rt_of(ctx)
            if rt is not None:
                rt.loop.ev("hook", rt.rid, "mark", da.get("k"))
            k = da.get("k")
            deep = da.get("deep")
            if deep and isinstance(deep, list) and deep[0] and isinstance(deep[0], list):
                k = deep[0][0]
            if isinstance(k, int) and k % 2:
                raise UserError("mark %r refuses" % (k,))
            return await nxt(parent, args, ctx, info)

    Directive("mark", schema_name=name)(Mark())


def make_custom_default_resolver():
    """Behaves exactly like the library's default resolver and records where it was called."""
    async def custom_default_resolver(parent, args, ctx, info):
        rt = _rt_of(ctx)
        if rt is not None:
            rt.default_calls.append(tuple(info.path.as_list()))
        try:
            return getattr(parent, info.field_name)
        except AttributeError:
            pass
        try:
            return parent[info.field_name]
        except (KeyError, TypeError):
            pass
        return None

    return custom_default_resolver


def make_custom_default_type_resolver():
    """Behaves exactly like the library's default type resolver and counts its calls."""
    def custom_default_type_resolver(result, ctx, info, abstract_type):
        rt = _rt_of(ctx)
        if rt is not None:
            rt.default_type_calls += 1
        try:
            return result["_typename"]
        except (KeyError, TypeError):
            pass
        try:
            return result._typename
        except AttributeError:
            pass
        return result.__class__.__name__

    return custom_default_type_resolver


async def identity_error_coercer(exception, error):
    return error


BUILD_MODES = ["create_engine", "ctor", "cook_args", "split", "cook_twice"]


async def cook(schema, name, cfg=None, sdl=None, pre=None, **extra):
    """Register the schema model's actors under `name` and cook an engine.  cfg["build"] selects one
    of the documented, equivalent ways of constructing an engine; cfg["dr"/"dtr"/"ec"/"jl"] install
    custom defaults that behave like the built-in ones (and count their calls); cfg["sdl_file"]
    supplies the SDL through a file."""
    cfg = cfg or {}
    if pre is not None:
        pre(name)
    register_bundle(schema, name, type_as_object=cfg.get("type_as_object", False), async_type_resolvers=bool(cfg.get("atr")))
    kw = dict(extra)
    if cfg.get("lc") is not None:
        kw["coerce_list_concurrently"] = cfg["lc"]
    if cfg.get("pc") is not None:
        kw["coerce_parent_concurrently"] = cfg["pc"]
    if cfg.get("ac"):
        kw["custom_default_arguments_coercer"] = (
            sync_arguments_coercer if cfg["ac"] == "sync" else gather_arguments_coercer)
    if cfg.get("dr"):
        kw.setdefault("custom_default_resolver", make_custom_default_resolver())
    if cfg.get("dtr"):
        dtr = make_custom_default_type_resolver()
        if cfg.get("atr"):
            sync_dtr = dtr

            async def dtr(result, ctx, info, abstract_type):  # the `async def` form shown in docs/api/engine.md
                return sync_dtr(result, ctx, info, abstract_type)
        kw.setdefault("custom_default_type_resolver", dtr)
    if cfg.get("ec"):
        kw.setdefault("error_coercer", identity_error_coercer)
    jl_calls = [0]
    if cfg.get("jl"):
        import json

        def counting_json_loader(text):
            jl_calls[0] += 1
            return json.loads(text)
        kw.setdefault("json_loader", counting_json_loader)
    text = sdl if sdl is not None else print_sdl(schema)
    if cfg.get("sdl_spell") and isinstance(text, str):
        # the same definitions written with other ignored tokens / optional syntax
        from simv.gen.sdl_spelling import respell
        from simv.tape import Tape
        text = respell(text, Tape(cfg["sdl_spell"]).sub("spell"))
    tmp = None
    if cfg.get("sdl_file") and isinstance(text, str):
        import os
        import tempfile
        tmp = tempfile.mkdtemp(prefix="simv_sdl_")
        path = os.path.join(tmp, "schema.graphql")
        with open(path, "w", encoding="utf-8") as f:
            f.write(text)
        text = path
        kw.setdefault("sdl_file_encoding", "utf-8")
    build = cfg.get("build") or "create_engine"
    try:
        if build == "create_engine":
            engine = await create_engine(text, schema_name=name, **kw)
        else:
            from tartiflette import Engine
            if build in ("ctor", "cook_twice"):
                engine = Engine(text, schema_name=name, **kw)
                await engine.cook()
            elif build == "cook_args":
                engine = Engine()
                await engine.cook(sdl=text, schema_name=name, **kw)
            else:  # split: every other option to the constructor, the rest to cook()
                keys = sorted(kw)
                a = {k: kw[k] for k in keys[::2]}
                b = {k: kw[k] for k in keys[1::2]}
                engine = Engine(text, **a)
                await engine.cook(schema_name=name, **b)
            if build == "cook_twice":
                # cooking a cooked engine is documented to do nothing
                await engine.cook()
                await engine.cook(sdl="type Query { cookedTwice: Int }", schema_name=name)
    finally:
        if tmp is not None:
            import shutil
            shutil.rmtree(tmp, ignore_errors=True)
    try:
        engine._simv_cfg = dict(cfg)
        engine._simv_jl = jl_calls
    except Exception:  # noqa: BLE001
        pass
    return engine


def forget(name):
    """Drop a finished run's registrations (names are unique per run, so this is only housekeeping;
    it must not depend on how the registry stores things)."""
    store = getattr(SchemaRegistry, "_schemas", None)
    if isinstance(store, dict):
        store.pop(name, None)
