"""pytest plugin: run the repository's own tests with the parser stand-in installed (stub conformance).

Installs the cffi dlopen wrapper before collection and runs `async def` tests itself (the installed
pytest-asyncio refuses the repository's old-style async fixtures; tests needing those are reported as
errors, never as passed)."""
import asyncio
import inspect
import os
import sys

HERE = os.path.dirname(os.path.dirname(os.path.dirname(os.path.abspath(__file__))))
if HERE not in sys.path:
    sys.path.insert(0, HERE)
from simv import gqlstub  # noqa: E402

gqlstub.install()
import pytest  # noqa: E402


def pytest_configure(config):
    config.addinivalue_line("markers", "asyncio: run coroutine test")
    config.addinivalue_line("markers", "ttftt_engine: engine marker")


@pytest.hookimpl(tryfirst=True)
def pytest_pyfunc_call(pyfuncitem):
    fn = pyfuncitem.obj
    if inspect.iscoroutinefunction(fn):
        args = {a: pyfuncitem.funcargs[a] for a in pyfuncitem._fixtureinfo.argnames}
        loop = pyfuncitem.funcargs.get("event_loop")
        if loop is not None and not loop.is_closed():
            loop.run_until_complete(fn(**args))
        else:
            asyncio.run(fn(**args))
        return True
