"""Stub conformance: run the repository's functional and unit tests with the parser stand-in installed.

./check selftest stubconf [functional|unit]   (writes /verif/selftest/stub_conformance.json)"""
import json
import os
import re
import subprocess
import sys
import time

VERIF = os.path.dirname(os.path.dirname(os.path.abspath(__file__)))
REPO = os.environ.get("VERIF_REPO", "/repo")


def run(which):
    env = dict(os.environ)
    env["PYTHONPATH"] = os.path.join(VERIF, "simv", "pytest_stub") + os.pathsep + VERIF
    env["PYTHONDONTWRITEBYTECODE"] = "1"
    t0 = time.time()
    p = subprocess.run([sys.executable, "-m", "pytest", "tests/" + which, "-q", "-p", "no:cacheprovider", "-p", "no:asyncio",
                        "-p", "stubplugin", "--timeout=900", "--continue-on-collection-errors", "-W", "ignore"],
                       cwd=REPO, env=env, capture_output=True, text=True, timeout=3600)
    tail = next((l for l in reversed(p.stdout.strip().splitlines()) if re.search(r"\d+ passed", l)), "?")
    counts = {k: int(v) for v, k in re.findall(r"(\d+) (passed|failed|errors?|skipped)", tail)}
    failed = [l for l in p.stdout.splitlines() if l.startswith("FAILED")][:40]
    return {"suite": "tests/" + which, "summary": tail, "counts": counts, "failed_ids": failed, "wall_s": round(time.time() - t0, 1)}


def main(argv):
    which = argv or ["functional", "unit"]
    out = [run(w) for w in which]
    for o in out:
        print("%s: %s" % (o["suite"], o["summary"]))
    os.makedirs(os.path.join(VERIF, "selftest"), exist_ok=True)
    with open(os.path.join(VERIF, "selftest", "stub_conformance.json"), "w") as f:
        json.dump(out, f, indent=1)
    return 0
