"""Self-tests of the machinery: setup (import + stub vectors + determinism), determinism, stubconf."""
import json
import os
import subprocess
import sys
import time

VERIF = os.path.dirname(os.path.dirname(os.path.abspath(__file__)))

VECTOR_Q = b"{ a { a1 a2 } }"
VECTOR_E = b'{"kind":"Document","loc":{"start": {"line": 1,"column":1}, "end": {"line":1,"column":16}},"definitions":[{"kind":"OperationDefinition","loc":{"start": {"line": 1,"column":1}, "end": {"line":1,"column":16}},"operation":"query","name":null,"variableDefinitions":null,"directives":null,"selectionSet":{"kind":"SelectionSet","loc":{"start": {"line": 1,"column":1}, "end": {"line":1,"column":16}},"selections":[{"kind":"Field","loc":{"start": {"line": 1,"column":3}, "end": {"line":1,"column":14}},"alias":null,"name":{"kind":"Name","loc":{"start": {"line": 1,"column":3}, "end": {"line":1,"column":4}},"value":"a"},"arguments":null,"directives":null,"selectionSet":{"kind":"SelectionSet","loc":{"start": {"line": 1,"column":5}, "end": {"line":1,"column":14}},"selections":[{"kind":"Field","loc":{"start": {"line": 1,"column":7}, "end": {"line":1,"column":9}},"alias":null,"name":{"kind":"Name","loc":{"start": {"line": 1,"column":7}, "end": {"line":1,"column":9}},"value":"a1"},"arguments":null,"directives":null,"selectionSet":null},{"kind":"Field","loc":{"start": {"line": 1,"column":10}, "end": {"line":1,"column":12}},"alias":null,"name":{"kind":"Name","loc":{"start": {"line": 1,"column":10}, "end": {"line":1,"column":12}},"value":"a2"},"arguments":null,"directives":null,"selectionSet":null}]}}]}}]}'


def stub_vectors():
    from simv import boot  # noqa: F401
    from tartiflette.language.parsers.libgraphqlparser.parser import _parse_to_json_ast

    got = _parse_to_json_ast(VECTOR_Q)
    assert got == VECTOR_E, "stub JSON differs from libgraphqlparser's byte-exact vector:\n%r" % got
    assert _parse_to_json_ast(VECTOR_Q.decode()) == VECTOR_E
    return 2


def determinism(check_ids, n=40, tier="quick"):
    """Every seed twice in this process order A, then in a fresh interpreter under another hash seed."""
    from simv import runner

    bad = []
    for cid in check_ids:
        mod = runner._load(cid)
        seeds = [runner.seed_of(0, i) for i in range(n)]
        a = {s: runner.safe_run(mod, s, None, tier).get("digest") for s in seeds}
        b = {s: runner.safe_run(mod, s, None, tier).get("digest") for s in reversed(seeds)}
        if a != b:
            bad.append((cid, "same process, reversed order", [s for s in seeds if a[s] != b[s]][:5]))
        det = runner.determinism_selfcheck(cid, tier, seeds, a)
        if not det["ok"]:
            bad.append((cid, "fresh interpreter PYTHONHASHSEED=12345", det))
        print("determinism %s: %d seeds x3 %s" % (cid, n, "OK" if not [x for x in bad if x[0] == cid] else "MISMATCH"))
    return bad


def all_check_ids():
    d = os.path.join(VERIF, "simv", "checks")
    return sorted(f[:-3].upper() for f in os.listdir(d) if f.startswith("c") and f[1:3].isdigit() and f.endswith(".py"))


def main(argv):
    what = argv[0] if argv else "setup"
    t0 = time.time()
    if what == "setup":
        n = stub_vectors()
        print("stub conformance vectors: %d/2 byte-exact" % n)
        bad = determinism(all_check_ids(), n=6)
        if bad:
            print("HARNESS-ERROR: determinism: %r" % (bad,))
            return 2
        print("setup ok in %.1fs" % (time.time() - t0))
        return 0
    if what == "determinism":
        ids = argv[1:] or all_check_ids()
        bad = determinism(ids, n=int(os.environ.get("VERIF_DET_SEEDS", "200")))
        if bad:
            print("HARNESS-ERROR: determinism: %r" % (bad,))
            return 2
        return 0
    if what == "stubconf":
        from simv import stubconf

        return stubconf.main(argv[1:])
    if what == "sensitivity":
        from simv import sensitivity

        return sensitivity.main(argv[1:])
    print("unknown selftest %r" % what)
    return 2
