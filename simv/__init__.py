"""simv: deterministic simulation with fault injection for tartiflette (see /verif/DESIGN.md)."""
