"""SimLoop: the only event loop and the only clock of a simulated run.

A ``BaseEventLoop`` with a dummy selector.  ``BaseEventLoop._run_once`` calls
``selector.select(timeout)`` exactly once per iteration; that call is the simulator's tick.  At a
tick the scheduler may release one parked *gate* (a future an actor awaits -- the analogue of an
I/O completion, which real loops also deliver between callbacks) or, when nothing is runnable,
jump the virtual clock to the next timer.  Every decision is drawn from the run's tape and logged
with a global sequence number shared with the actors' events.
"""
import asyncio
import hashlib
import logging
import warnings
from asyncio import base_events

logging.getLogger("asyncio").setLevel(logging.CRITICAL)
warnings.filterwarnings("ignore", category=RuntimeWarning, message=".*was never awaited.*")


class SimDeadlock(Exception):
    """Nothing runnable, nothing parked, no timer, main future not done."""


class SimStepCap(Exception):
    """The run exceeded its tick budget."""


class _Selector:
    def __init__(self, loop):
        self.loop = loop

    def select(self, timeout=None):
        self.loop._sim_tick(timeout)
        return []

    def close(self):
        pass

    def get_map(self):
        return {}


class _Gate:
    __slots__ = ("label", "fut", "n", "prio")

    def __init__(self, label, fut, n, prio):
        self.label, self.fut, self.n, self.prio = label, fut, n, prio


SCHEDULERS = ("random", "fifo", "lifo", "rdoc", "starve", "pct")


class SimLoop(base_events.BaseEventLoop):
    """choice: object with draw(n) -> int in [0, n) (a SubTape or a Script)."""

    def __init__(self, choice, scheduler="random", busy_pct=30, point_mode="gate", step_cap=200_000):
        super().__init__()
        self._selector = _Selector(self)
        self._now = 0.0
        self.choice = choice
        self.scheduler = scheduler
        self.busy_pct = busy_pct
        self.eager = point_mode.endswith("+eager")
        if self.eager:
            point_mode = point_mode[:-len("+eager")]
            self.set_task_factory(asyncio.eager_task_factory)
        self.point_mode = point_mode
        self.step_cap = step_cap
        self.parked = []
        self.trace = []  # (seq, kind, label)
        self.events = []  # (seq, kind, *payload) from actors
        self.seq = 0
        self.ticks = 0
        self.releases = 0
        self.max_parked = 0
        self.multi_choice = 0  # release decisions with >= 2 candidates
        self.vsec = 0.0
        self._gate_n = 0
        self._starve_victim = None
        self._pct_changes = None
        if scheduler == "starve":
            self._starve_k = choice.draw(6)
        if scheduler == "pct":
            self._pct_changes = sorted({choice.draw(40) + 1 for _ in range(choice.draw(3) + 1)})

    # ---- clock ---------------------------------------------------------------------------
    def time(self):
        return self._now

    def _process_events(self, event_list):
        pass

    def _write_to_self(self):
        pass

    # ---- event log -----------------------------------------------------------------------
    def ev(self, kind, *payload):
        self.seq += 1
        self.events.append((self.seq, kind) + payload)
        return self.seq

    # ---- suspension points ---------------------------------------------------------------
    def gate(self, label):
        fut = self.create_future()
        self._gate_n += 1
        prio = self.choice.draw(1000) if self.scheduler == "pct" else 0
        g = _Gate(label, fut, self._gate_n, prio)
        if self.scheduler == "starve" and self._starve_victim is None and self._gate_n == self._starve_k + 1:
            self._starve_victim = g.n
        self.parked.append(g)
        if len(self.parked) > self.max_parked:
            self.max_parked = len(self.parked)
        return fut

    async def point(self, label):
        """Suspension point of a harness actor: gate, virtual latency, or no suspension."""
        mode = self.point_mode
        if mode == "mixed":
            mode = ("gate", "gate", "sleep", "none")[self.choice.draw(4)]
        if mode == "gate":
            await self.gate(label)
        elif mode == "sleep":
            d = (self.choice.draw(50) + 1) / 10.0
            await asyncio.sleep(d)
        elif mode == "yield":
            await asyncio.sleep(0)
        # "none": run straight through

    # ---- the tick -------------------------------------------------------------------------
    def _pick(self):
        parked = self.parked
        n = len(parked)
        if n >= 2:
            self.multi_choice += 1
        s = self.scheduler
        if n == 1:
            if s in ("random", "script"):
                self.choice.draw(1)
            return 0
        if s in ("random", "script"):
            return self.choice.draw(n)
        if s == "fifo":
            return 0
        if s == "lifo":
            return n - 1
        if s == "rdoc":
            return max(range(n), key=lambda i: (repr(parked[i].label), parked[i].n))
        if s == "starve":
            cands = [i for i in range(n) if parked[i].n != self._starve_victim]
            return cands[self.choice.draw(len(cands))] if cands else 0
        if s == "pct":
            if self._pct_changes and self.releases + 1 >= self._pct_changes[0]:
                self._pct_changes.pop(0)
                top = max(range(n), key=lambda i: (parked[i].prio, -parked[i].n))
                parked[top].prio = -self.releases - 1
            return max(range(n), key=lambda i: (parked[i].prio, -parked[i].n))
        raise ValueError(s)

    def _release(self):
        i = self._pick()
        g = self.parked.pop(i)
        self.releases += 1
        self.seq += 1
        self.trace.append((self.seq, "release", g.label))
        if not g.fut.done():
            g.fut.set_result(None)

    def _sim_tick(self, timeout):
        self.ticks += 1
        if self.ticks > self.step_cap:
            raise SimStepCap("more than %d ticks" % self.step_cap)
        idle = timeout is None or timeout > 0
        if self.parked:
            if idle:
                if timeout is not None and self.choice.draw(2) == 1:
                    self._advance(timeout)
                else:
                    self._release()
            elif self.busy_pct and self.choice.draw(100) < self.busy_pct:
                self._release()
            return
        if idle:
            if timeout is None:
                raise SimDeadlock("idle: nothing ready, nothing parked, no timer")
            self._advance(timeout)

    def _advance(self, timeout):
        self._now += timeout
        self.vsec += timeout
        self.seq += 1
        self.trace.append((self.seq, "clock", round(self._now, 6)))

    # ---- summaries -----------------------------------------------------------------------
    def order_digest(self):
        h = hashlib.sha256()
        for _, kind, label in self.trace:
            if kind == "release":
                h.update(repr(label).encode())
                h.update(b"|")
        return h.hexdigest()[:16]

    def drain_and_close(self):
        """Cancel whatever is left (after an aborted run) and close quietly."""
        try:
            for t in asyncio.all_tasks(self):
                t.cancel()
            self.parked.clear()
        except Exception:  # pragma: no cover
            pass
        try:
            self._ready.clear()
            self._scheduled.clear()
        except Exception:  # pragma: no cover
            pass
        try:
            self.close()
        except Exception:  # pragma: no cover
            pass


class Script:
    """A scripted choice source for exhaustive DFS over release decisions.

    ``prefix`` fixes the first decisions; later ones default to 0.  ``log`` records (choice, n) for
    every decision so the enumerator can backtrack.
    """

    def __init__(self, prefix=()):
        self.prefix = list(prefix)
        self.log = []

    def draw(self, n):
        i = len(self.log)
        v = self.prefix[i] if i < len(self.prefix) else 0
        if n <= 1:
            v = 0
        elif v >= n:
            v = n - 1
        self.log.append((v, max(n, 1)))
        return v


def next_script(log):
    """Next prefix in DFS order after a run whose decision log is ``log``; None when exhausted."""
    i = len(log) - 1
    while i >= 0:
        v, n = log[i]
        if v + 1 < n:
            return [c for c, _ in log[:i]] + [v + 1]
        i -= 1
    return None


def run_sim(loop, coro):
    """Run ``coro`` to completion on ``loop``; always leaves the loop closed."""
    asyncio.set_event_loop(None)
    try:
        return loop.run_until_complete(coro)
    finally:
        loop.drain_and_close()
