"""Very wide fan-outs: requests whose lists have more items than any small constant an engine might
use to bound its concurrency (hundreds to thousands of rows, every row with a suspended resolver and a
nested list).  Whatever the schedule, each request terminates and returns exactly its rows; several
such requests in flight together each return what they return alone.

run_wide(seed_tape, name, rows_per_request) -> (violations, info)"""
import asyncio

from simv import boot  # noqa: F401
from simv.actors import forget
from simv.oracle import V
from simv.simloop import SimDeadlock, SimLoop, SimStepCap, run_sim

from tartiflette import Resolver, create_engine

WIDE_SDL = """
type Cell { v: Int }
type Row { id: Int cells: [Cell] tags: [Int] }
type Query { rows(n: Int!): [Row] }
"""


def register(name):
    @Resolver("Query.rows", schema_name=name)
    async def rows(parent, args, ctx, info):
        return [{"id": i} for i in range(args["n"])]

    @Resolver("Row.cells", schema_name=name)
    async def cells(parent, args, ctx, info):
        loop = asyncio.get_running_loop()
        ctx["started"] += 1
        await loop.point((ctx["rid"], "cells", parent["id"]))
        ctx["finished"] += 1
        return [{"v": parent["id"]}, {"v": parent["id"] + 1}]

    @Resolver("Row.tags", schema_name=name)
    async def tags(parent, args, ctx, info):
        loop = asyncio.get_running_loop()
        if parent["id"] % 3 == 0:
            await loop.point((ctx["rid"], "tags", parent["id"]))
        return [parent["id"], 7]


def expected(n):
    return {"rows": [{"id": i, "cells": [{"v": i}, {"v": i + 1}], "tags": [i, 7]} for i in range(n)]}


def run_wide(t, name, rows_per_request, scheduler="random", lc=None, pc=None):
    """t: sub-tape for the schedule.  Returns (violations, info)."""
    viol = []
    info = {"rows": list(rows_per_request), "releases": 0, "max_parked": 0}
    register(name)
    kw = {}
    if lc is not None:
        kw["coerce_list_concurrently"] = lc
    if pc is not None:
        kw["coerce_parent_concurrently"] = pc
    try:
        cook_loop = SimLoop(t, "fifo", 0, "none")
        engine = run_sim(cook_loop, create_engine(WIDE_SDL, schema_name=name, **kw))
        loop = SimLoop(t, scheduler, 20, "gate", 2_000_000)
        ctxs = [{"rid": i, "started": 0, "finished": 0} for i in range(len(rows_per_request))]
        results = [None] * len(rows_per_request)

        async def client(i, n):
            results[i] = await engine.execute("query Q($n: Int!) { rows(n: $n) { id cells { v } tags } }", variables={"n": n}, context=ctxs[i])

        async def main():
            await asyncio.gather(*[loop.create_task(client(i, n)) for i, n in enumerate(rows_per_request)])
            me = asyncio.current_task()
            return len([x for x in asyncio.all_tasks(loop) if x is not me and not x.done()])

        try:
            alive = run_sim(loop, main())
        except (SimDeadlock, SimStepCap) as e:
            viol.append(V("no_termination", "%d request(s) of %r rows: execute did not terminate: %r (parked=%d, finished %r of started %r)" % (
                len(rows_per_request), list(rows_per_request), e, len(loop.parked), [c["finished"] for c in ctxs], [c["started"] for c in ctxs]),
                kind=type(e).__name__, wide=True))
            return viol, info
        info["releases"], info["max_parked"] = loop.releases, loop.max_parked
        for i, n in enumerate(rows_per_request):
            r = results[i]
            if not isinstance(r, dict) or r.get("errors") or r.get("data") != expected(n):
                got = (r.get("data") or {}).get("rows") if isinstance(r, dict) else None
                viol.append(V("wide_response_wrong", "request %d of %d rows: errors=%r, rows returned=%r" % (
                    i, n, (r.get("errors") if isinstance(r, dict) else r) and str(r.get("errors"))[:200], len(got) if isinstance(got, list) else got), wide=True))
            if ctxs[i]["started"] != n or ctxs[i]["finished"] != n:
                viol.append(V("started_not_finished", "request %d: %d resolvers started, %d finished, %d rows" % (
                    i, ctxs[i]["started"], ctxs[i]["finished"], n), wide=True))
        if alive:
            viol.append(V("work_left_behind", "%d tasks alive after the wide requests returned" % alive, wide=True))
    finally:
        forget(name)
    return viol, info
