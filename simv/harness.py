"""Shared plumbing: case generation, reference planning, engine runs under SimLoop, digests."""
import asyncio
import copy
import hashlib

from simv import boot  # noqa: F401
from simv.actors import AppBaseException, ReqCtx, Runtime, canon, consume_args, cook, forget
from simv.gen.document import gen_document, gen_variables
from simv.gen.schema import gen_schema
from simv.model.document import print_document
from simv.model.exec import RefExec
from simv.model.schema import print_sdl
from simv.simloop import SimDeadlock, SimLoop, SimStepCap, run_sim
from simv.tape import Tape


class Case:
    def __init__(self):
        self.schema = None
        self.sdl = None
        self.doc = None
        self.text = None
        self.op_name = None
        self.variables = None
        self.layout = 0

    def render(self):
        return {"sdl": self.sdl, "query": self.text, "operation_name": self.op_name, "variables": self.variables}

    def digest(self):
        return hashlib.sha256(canon([self.sdl, self.text, self.op_name, self.variables]).encode()).hexdigest()[:16]


def gen_case(tape, schema_knobs=None, doc_knobs=None, vars_knobs=None, doc_post=None):
    c = Case()
    c.schema = gen_schema(tape, schema_knobs)
    c.sdl = print_sdl(c.schema)
    c.doc = gen_document(c.schema, tape, doc_knobs)
    if doc_post is not None:
        c.doc.schema_model = c.schema  # for post-processors that need the types
        doc_post(c.doc, tape)
    if tape.preset and "@doc" in tape.preset:
        # an explicit (minimised) document model recorded in a replay file replaces the generated one
        from simv.model.document import doc_from_json
        probes = c.doc.probes
        c.doc = doc_from_json(tape.preset["@doc"])
        c.doc.probes = probes
    c.layout = tape.draw("doc", 4)
    if tape.preset and "@doc" in tape.preset:
        c.layout = 1
    c.text = print_document(c.doc, c.layout)
    ops = c.doc.operations()
    t = tape.sub("vars")
    op = ops[t.draw(len(ops))]
    c.op = op
    c.op_name = op.name if (len(ops) > 1 or (op.name and t.chance(50))) else None
    c.variables = gen_variables(c.schema, tape, op, **(vars_knobs or {}))
    if tape.preset and "@doc" in tape.preset:
        ops = c.doc.operations()
        op = next((o for o in ops if o.name == c.op_name), ops[0]) if c.op_name else ops[0]
        c.op = op
        if len(ops) > 1 and not c.op_name:
            c.op_name = op.name
        if len(ops) == 1 and c.op_name and c.op_name != op.name:
            c.op_name = op.name
    return c


def make_plan(case, tape, faults=None, stream="data", knobs=None, root_value=None, base=None):
    ex = RefExec(case.schema, case.doc, tape, stream, faults, knobs, base_over=base.over if base is not None else None)
    return ex.run(case.op_name, copy.deepcopy(case.variables), root_value)


class Out:
    """Outcome of one engine execution under the simulator."""

    def __init__(self):
        self.resp = None
        self.exc = None  # exception escaping execute (violation) / SimDeadlock / SimStepCap
        self.rt = None
        self.events = []
        self.trace = []
        self.tasks_alive = None
        self.parked_left = None
        self.releases = 0
        self.multi_choice = 0
        self.max_parked = 0
        self.vsec = 0.0
        self.order = ""
        self.ticks = 0


def cook_engine(schema, name, cfg=None, sdl=None, **extra):
    """Cook an engine in a throw-away loop (cooking itself awaits no harness actor)."""
    loop = SimLoop(Tape(0).sub("cook"), "fifo", 0, "none")
    return run_sim(loop, cook(schema, name, cfg, sdl, **extra))


def take_response(resp, consume=True):
    """The response belongs to the caller: keep a snapshot for the oracles and let the 'client' edit the
    object it was given in place (paths, locations, data containers).  Harmless unless the engine keeps
    handing out the same objects (cached errors, shared lists) to later requests."""
    if not consume or not isinstance(resp, dict):
        return resp
    try:
        kept = copy.deepcopy(resp)
    except Exception:  # noqa: BLE001 -- not copyable (reported by the oracles anyway): leave it alone
        return resp
    _edit_in_place(resp, 0)
    return kept


def _edit_in_place(v, depth):
    if depth > 12:
        return
    if isinstance(v, dict):
        for x in list(v.values()):
            _edit_in_place(x, depth + 1)
        v["__edited_by_client__"] = True
    elif isinstance(v, list):
        for x in v:
            _edit_in_place(x, depth + 1)
        v.insert(0, "__edited_by_client__")


def execute_once(engine, text, op_name, variables, plan, choice, scheduler="random", busy_pct=30,
                 point_mode="gate", rid=0, root_value=None, override=None, context=None, step_cap=200_000, type_override=None, deny=False,
                 consume_response=True):
    loop = SimLoop(choice, scheduler, busy_pct, point_mode, step_cap)
    rt = Runtime(rid, loop, plan)
    rt.engine_cfg = getattr(engine, "_simv_cfg", None) or {}
    rt.override = override
    rt.type_override = type_override
    rt.deny = deny
    rt.scramble_args = bool(plan is not None and getattr(plan, "no_variables", False))
    loop.default_rt = rt
    ctx = ReqCtx(rt) if context is None else context
    out = Out()
    out.rt = rt

    async def main():
        resp = await engine.execute(text, operation_name=op_name, context=ctx,
                                    variables=copy.deepcopy(variables), initial_value=root_value)
        consume_args(rt)
        resp = take_response(resp, consume_response)
        me = asyncio.current_task()
        out.tasks_alive = len([t for t in asyncio.all_tasks(loop) if t is not me and not t.done()])
        out.parked_left = len([g for g in loop.parked if not g.fut.done()])
        return resp

    try:
        out.resp = run_sim(loop, main())
    except (SimDeadlock, SimStepCap) as e:
        out.exc = e
    except (Exception, asyncio.CancelledError, AppBaseException) as e:  # noqa: BLE001 -- anything escaping execute is a finding
        out.exc = e
    out.events = loop.events
    out.trace = loop.trace
    out.releases = loop.releases
    out.multi_choice = loop.multi_choice
    out.max_parked = loop.max_parked
    out.vsec = loop.vsec
    out.order = loop.order_digest()
    out.ticks = loop.ticks
    return out


def run_digest(*parts):
    h = hashlib.sha256()
    for p in parts:
        h.update(canon(p).encode("utf-8", "replace"))
        h.update(b"\x00")
    return h.hexdigest()[:24]


def pick_scheduler(t):
    """(scheduler, busy_pct, point_mode) drawn from a SubTape -- swarm style."""
    sched = t.weighted([(4, "random"), (1, "fifo"), (1, "lifo"), (1, "rdoc"), (1, "starve"), (2, "pct")])
    busy = t.choose([30, 0, 10, 60, 100])
    mode = t.weighted([(5, "gate"), (3, "mixed"), (1, "sleep"), (1, "yield")])
    # Python 3.12's eager task factory (tasks run synchronously up to their first suspension) is a legitimate loop
    # configuration that changes every interleaving; own stream so that the other choices of a seed are unaffected
    if hasattr(t, "t") and hasattr(asyncio, "eager_task_factory"):
        from simv.tape import SubTape
        if SubTape(t.t, t.s + ".eager").chance(15):
            mode += "+eager"
    return sched, busy, mode


# ---- several requests on one engine ---------------------------------------------------------------

class Req:
    """One client request (and, after a run, what happened to it)."""

    def __init__(self, rid, text, op_name=None, variables=None, plan=None, label=""):
        self.rid = rid
        self.text = text
        self.op_name = op_name
        self.variables = variables
        self.plan = plan
        self.label = label
        self.rt = None
        self.resp = None
        self.exc = None
        self.cancelled = False

    def clone(self):
        return Req(self.rid, self.text, self.op_name, self.variables, self.plan, self.label)

    def render(self):
        return {"rid": self.rid, "label": self.label, "query": self.text if isinstance(self.text, str) else repr(self.text),
                "operation_name": self.op_name, "variables": self.variables}


def run_batch(engine, reqs, choice, scheduler="random", busy_pct=30, point_mode="gate", cancel=None,
              stagger=True, shared=None, step_cap=200_000, cancel_after_steps=None):
    """Run all requests concurrently as client tasks of one SimLoop.  cancel = index of the request
    a killer task cancels at a scheduler-chosen moment (fault: a client goes away)."""
    loop = SimLoop(choice, scheduler, busy_pct, point_mode, step_cap)
    out = Out()
    for r in reqs:
        r.rt = Runtime(r.rid, loop, r.plan)
        r.rt.engine_cfg = getattr(engine, "_simv_cfg", None) or {}
        r.rt.shared = shared
        r.rt.scramble_args = bool(r.plan is not None and getattr(r.plan, "no_variables", False))
        r.ctx = ReqCtx(r.rt)
    loop.default_rt = reqs[0].rt if reqs else None

    started = {}

    async def client(r):
        try:
            if stagger:
                await loop.gate(("client", r.rid))
            fut = started.get(r.rid)
            if fut is not None and not fut.done():
                fut.set_result(None)
            r.resp = await engine.execute(r.text, operation_name=r.op_name, context=r.ctx,
                                          variables=copy.deepcopy(r.variables),
                                          initial_value=r.plan.root_value if r.plan is not None else None)
            consume_args(r.rt)
            r.resp = take_response(r.resp)
        except asyncio.CancelledError:
            r.cancelled = True
            raise
        except Exception as e:  # noqa: BLE001
            r.exc = e

    async def main():
        if cancel is not None and cancel_after_steps is not None:
            started[reqs[cancel].rid] = loop.create_future()
        tasks = [loop.create_task(client(r)) for r in reqs]
        killer = None
        if cancel is not None:
            async def kill():
                if cancel_after_steps is None:
                    await loop.gate(("killer",))
                else:
                    # the client goes away a chosen number of event-loop iterations after its request began
                    await started[reqs[cancel].rid]
                    for _ in range(cancel_after_steps):
                        await asyncio.sleep(0)
                tasks[cancel].cancel()
            killer = loop.create_task(kill())
        await asyncio.gather(*tasks, return_exceptions=True)
        if killer is not None:
            await killer
        me = asyncio.current_task()
        out.tasks_alive = len([t for t in asyncio.all_tasks(loop) if t is not me and not t.done()])
        out.parked_left = len([g for g in loop.parked if not g.fut.done()])

    try:
        run_sim(loop, main())
    except (SimDeadlock, SimStepCap) as e:
        out.exc = e
    out.events, out.trace = loop.events, loop.trace
    out.releases, out.multi_choice, out.max_parked = loop.releases, loop.multi_choice, loop.max_parked
    out.vsec, out.order, out.ticks = loop.vsec, loop.order_digest(), loop.ticks
    return out


def run_solo(engine, req, choice, scheduler="fifo", busy_pct=0, point_mode="gate", shared=None):
    r = req.clone()
    out = run_batch(engine, [r], choice, scheduler, busy_pct, point_mode, None, False, shared)
    return r, out


def corrupt_text(text, t):
    """A request text that must be refused: syntax error or a rule-breaking edit."""
    mode = t.draw(4)
    if mode == 0:
        i = text.rfind("}")
        return text[:i] + text[i + 1:], "syntax:unbalanced"
    if mode == 1:
        i = text.find("{")
        return text[: i + 1] + " nopeField " + text[i + 1:], "unknown-field"
    if mode == 2:
        return text + " fragment Unused on Query { __typename }", "unused-fragment"
    return text.replace("{", "{ ...Missing ", 1), "unknown-fragment"
