"""Command line: run <ID> [--tier quick|thorough] | replay <file> | digests <ID> <tier> seeds... | selftest <what>"""
import os
import sys

HERE = os.path.dirname(os.path.abspath(__file__))
VERIF = os.path.dirname(HERE)
if VERIF not in sys.path:
    sys.path.insert(0, VERIF)


def main(argv):
    if os.environ.get("PYTHONHASHSEED") is None and not os.environ.get("VERIF_NO_REEXEC"):
        env = dict(os.environ)
        env["PYTHONHASHSEED"] = "0"
        env["PYTHONDONTWRITEBYTECODE"] = "1"
        os.execve(sys.executable, [sys.executable, "-X", "faulthandler", os.path.abspath(__file__)] + argv, env)
    if not argv:
        print(__doc__)
        return 2
    cmd = argv[0]
    from simv import runner

    if cmd == "run":
        cid = argv[1]
        tier = os.environ.get("VERIF_TIER", "quick")
        runs = None
        i = 2
        while i < len(argv):
            if argv[i] == "--tier":
                tier = argv[i + 1]
                i += 2
            elif argv[i] == "--runs":
                runs = int(argv[i + 1])
                i += 2
            else:
                i += 1
        seed = int(os.environ.get("VERIF_SEED", "0") or 0)
        return runner.run_check(cid, tier, seed, runs=runs)
    if cmd == "replay":
        return runner.replay(argv[1])
    if cmd == "digests":
        return runner.digests_cmd(argv[1], [int(x) for x in argv[3:]], argv[2])
    if cmd == "selftest":
        from simv import selftest

        return selftest.main(argv[1:])
    print(__doc__)
    return 2


if __name__ == "__main__":
    sys.exit(main(sys.argv[1:]))
