"""C02 -- field failures are contained: null propagation and error accounting.

One run = one generated request.  The reference executor enumerates the request's positions
(fields and list items); single faults are injected at every position x every applicable kind
(thorough: all of them; quick: a seeded sample), then pairs and random subsets.  Every faulty
execution is compared with the reference executor run with the same fault set and with the
engine's own fault-free response."""
import copy

from simv.actors import forget
from simv.checks.common import COMMON_ASSUMPTIONS, base_result, exc_violation, pick_engine_cfg, trace_tail
from simv.harness import cook_engine, execute_once, gen_case, make_plan, pick_scheduler, run_digest
from simv.model.exec import ROOT, enumerate_fault_sites, same_list_fault_pair
from simv.oracle import V, check_against_plan, check_envelope, same, first_diff, visible_nulls
from simv.tape import Tape

ID = "C02"
LEVEL = "fault_enumeration"
QUICK_RUNS = 1800
CHUNK = 8
RULE = ("seed -> request (as C01); fault sites = every completed position (field or list item) x applicable kinds {raise, raise "
        "library error, exception returned as value, null, value the type cannot complete (bad leaf / non-list / unknown or "
        "foreign runtime type)}; thorough enumerates all single faults of the request (cap 150), quick samples 12, plus pairs "
        "and random subsets; each faulty execution runs under its own seeded schedule and is compared with the reference "
        "executor (nearest nullable ancestor nulled, error paths subset of failure sites, every nulled position explained, "
        "locations inside the field text, library errors keep message+extensions) and with the engine's own fault-free data. "
        "evaluations = faulty executions; non-trivial = the fault produced >= 1 expected error; distinct = distinct (request, fault set).")
ASSUMPTIONS = COMMON_ASSUMPTIONS + [
    "how many sibling failures under an already-doomed non-null ancestor are reported is left free (set inclusion)",
]


def apply_nulls(data, nulls):
    data = copy.deepcopy(data)
    for q in nulls:
        if q == ROOT:
            return None
    for q in sorted(nulls, key=len):
        cur = data
        ok = True
        for step in q[:-1]:
            try:
                cur = cur[step]
            except (KeyError, IndexError, TypeError):
                ok = False
                break
            if cur is None:
                ok = False
                break
        if ok and cur is not None:
            try:
                cur[q[-1]] = None
            except (KeyError, IndexError, TypeError):
                pass
    return data


def layout_probe(plan, path):
    """(depth, distance to the nulled position, inside a list?) of a failure."""
    out = {}
    for e in plan.errors:
        depth = len(e.path)
        dist = depth if e.nulls == ROOT else depth - len(e.nulls)
        in_list = any(isinstance(x, int) for x in e.path)
        key = "layout_depth%d_dist%s%s" % (min(depth, 5), "ROOT" if e.nulls == ROOT else min(dist, 3), "_list" if in_list else "")
        out[key] = out.get(key, 0) + 1
    return out


def run_one(seed, preset=None, tier="quick", want_case=False):
    tape = Tape(seed, preset)
    cfgt = tape.sub("cfg")
    ft = tape.sub("fault")
    case = gen_case(tape, doc_knobs={"max_ops": 2})
    cfg = pick_engine_cfg(cfgt)
    # lists beyond 4096 items are expensive (every fault execution repeats them): a third of the runs, and fewer faults then
    plan_knobs = {"long_list_pct": 3, "mid_list_pct": 4, "huge_list": seed % 3 == 0,
                  "huge_list_crc": seed % 40 == 0}
    base = make_plan(case, tape, knobs=plan_knobs)
    r = base_result(tape)
    r["case_digest"] = case.digest()
    metrics = {"requests": 1, "fault_executions": 0, "single_faults": 0, "multi_faults": 0, "sites": 0}
    probes, faults_fired, sched_kinds = {}, {}, {}
    viol = []
    digests = []
    if base.refused:
        r.update(digest=run_digest("refused"), metrics=metrics)
        return r
    sites = enumerate_fault_sites(base)
    metrics["sites"] = len(sites)
    singles = list(sites)
    high = [x for x in sites if any(isinstance(i, int) and i >= 256 for i in x[0])]
    very_high = [x for x in sites if any(isinstance(i, int) and i >= 4096 for i in x[0])]
    if very_high:
        high = very_high  # beyond any 2^12 batch
    cap = 12 if tier == "quick" else (150 if not very_high else 30)
    singles = ft.shuffle(singles)[:cap] if len(singles) > cap else singles
    fault_sets = [{p: k} for p, k in singles]
    for _ in range(2 if tier == "quick" else 8):
        pair = same_list_fault_pair(base, ft)
        if pair:
            fault_sets.append(pair)
    if high:
        for _ in range(3):
            p, k = high[ft.draw(len(high))]
            fault_sets.append({p: k})
    n_multi = 3 if tier == "quick" else 10
    if len(sites) >= 2:
        for i in range(n_multi):
            size = 2 if i < n_multi // 2 + 1 else ft.rint(2, min(5, len(sites)))
            chosen = {}
            for _ in range(size):
                p, k = sites[ft.draw(len(sites))]
                chosen[p] = k
            fault_sets.append(chosen)
    bt = tape.sub("basefault")
    resolver_sites = [p for p, k in sites if k == "raise"]
    if resolver_sites and bt.chance(12):
        # one dedicated execution per such run: a resolver fails with a BaseException (see known_findings.json)
        fault_sets.append({resolver_sites[bt.draw(len(resolver_sites))]: "raise_base"})
    name = "%s_%d" % (ID, seed)
    distinct = set()
    try:
        engine = cook_engine(case.schema, name, cfg, sdl=case.sdl)
        sched = pick_scheduler(cfgt)
        out0 = execute_once(engine, case.text, case.op_name, case.variables, base, tape.sub("sched"),
                            sched[0], sched[1], sched[2], root_value=base.root_value)
        if out0.exc is not None:
            viol.append(exc_violation(out0))
        else:
            for v in check_envelope(out0.resp, case.text) + check_against_plan(case, base, out0.resp, out0.rt, out0.events):
                v["detail"] = "[fault-free] " + v["detail"]
                viol.append(v)
        digests.append(run_digest(out0.trace, out0.events, out0.resp, repr(out0.exc)))
        last_out = out0
        last_plan = base
        for i, fs in enumerate(fault_sets):
            t2 = Tape(seed, preset)
            plan = make_plan(case, t2, fs, base=base, knobs=plan_knobs)
            for k, v in t2.used.items():
                if k.startswith("data") and len(v) > len(tape.used.get(k, ())):
                    tape.used[k] = v
            sch = pick_scheduler(tape.sub("cfg%d" % i))
            sched_kinds[sch[0] + ("+eager" if sch[2].endswith("+eager") else "")] = sched_kinds.get(sch[0] + ("+eager" if sch[2].endswith("+eager") else ""), 0) + 1
            out = execute_once(engine, case.text, case.op_name, case.variables, plan, tape.sub("sched%d" % i),
                               sch[0], sch[1], sch[2], root_value=plan.root_value)
            metrics["fault_executions"] += 1
            metrics["single_faults" if len(fs) == 1 else "multi_faults"] += 1
            for k, n in plan.faults_fired.items():
                faults_fired[k] = faults_fired.get(k, 0) + n
            for k, n in layout_probe(plan, None).items():
                probes[k] = probes.get(k, 0) + n
            for k in ("list_longer_than_256", "list_longer_than_4096", "scalar_serialises_to_null", "falsy_parent_object"):
                if plan.probes.get(k):
                    probes[k] = probes.get(k, 0) + 1
            if plan.errors:
                distinct.add(repr(sorted((repr(p), k) for p, k in fs.items())))
            vs = []
            if out.exc is not None:
                vs.append(exc_violation(out))
            else:
                vs.extend(check_envelope(out.resp, case.text))
                vs.extend(check_against_plan(case, plan, out.resp, out.rt, out.events))
                if out.tasks_alive or out.parked_left:
                    vs.append(V("work_left_behind", "%d tasks alive, %d gates parked when execute returned" % (
                        out.tasks_alive, out.parked_left)))
                # cross-check with the engine's own fault-free response
                failed_paths = {tuple(e.path) for e in plan.errors}
                if out0.exc is None and all(p in failed_paths for p in fs) and not base.errors:
                    derived = apply_nulls(out0.resp.get("data"), visible_nulls(plan))
                    if not same(out.resp.get("data"), derived):
                        vs.append(V("other_parts_changed", "data differs from the fault-free response outside the nulled "
                                    "position(s): %s" % first_diff(out.resp.get("data"), derived)))
            if vs and list(fs.values()) == ["raise_base"]:
                # one violation per such execution, classified by what became of the exception
                def has_exc(x, d=0):
                    if isinstance(x, BaseException):
                        return True
                    if d < 60 and isinstance(x, dict):
                        return any(has_exc(y, d + 1) for y in x.values())
                    if d < 60 and isinstance(x, list):
                        return any(has_exc(y, d + 1) for y in x)
                    return False
                if out.exc is not None and isinstance(out.exc, BaseException) and not isinstance(out.exc, Exception):
                    mode = "escaped_from_execute"
                elif out.exc is None and isinstance(out.resp, dict) and (has_exc(out.resp.get("data")) or not any(
                        isinstance(e, dict) and tuple(e.get("path") or ()) == tuple(list(fs)[0]) for e in (out.resp.get("errors") or []))):
                    # the exception object sits in data as the field's value, or went down with an enclosing
                    # position nulled for another reason: either way no error reports the failing field
                    mode = "not_reported"
                else:
                    mode = "other"
                vs = [V("base_exception_not_contained", "a resolver failing with a BaseException (CancelledError of a future cancelled by "
                        "somebody else / an application BaseException) is not contained as a field error: %s; first symptom: %s: %s" % (
                            mode, vs[0]["clause"], vs[0]["detail"][:200]), mode=mode)]
            for v in vs:
                v["detail"] = "[faults %s] %s" % ({repr(list(p)): k for p, k in fs.items()}, v["detail"])
                v["sig"]["fault_kinds"] = sorted(set(fs.values()))
                viol.append(v)
            digests.append(run_digest(out.trace, out.events, out.resp, repr(out.exc)))
            if vs or i == len(fault_sets) - 1:
                last_out, last_plan, last_fs = out, plan, fs
            if len(viol) > 6:
                break
    finally:
        forget(name)
    r = base_result(tape, last_out, viol)
    r["digest"] = run_digest(digests)
    r["case_digest"] = case.digest()
    r["nontrivial"] = bool(distinct) and not viol
    r["distinct_n"] = len(distinct)
    r["evals"] = metrics["fault_executions"] + 1
    r["metrics"] = metrics
    r["probes"] = probes
    r["faults"] = faults_fired
    r["sched_kinds"] = sched_kinds
    if viol:
        from simv.model.document import doc_to_json
        r["doc_model"] = doc_to_json(case.doc)
    if want_case or viol:
        c = case.render()
        c["engine_config"] = cfg
        c["fault_sets"] = [{repr(list(p)): k for p, k in fs.items()} for fs in fault_sets[:40]]
        c["last_expected_data"] = repr(last_plan.data)[:2000]
        c["last_expected_errors"] = [repr(e) for e in last_plan.errors[:20]]
        c["last_response"] = repr(last_out.resp)[:2000]
        r["case"] = c
        r["trace"] = trace_tail(last_out)
    return r
