"""C18 -- execute always answers with a well-formed GraphQL response.

(a) the envelope invariant is monitored on every response of every run of every check
(simv/oracle.check_envelope); (b) dedicated runs: valid and corrupted texts (token deletion /
duplication / swap / garbage insertion / truncation, deep nesting, unicode, bytes, BOM, CRLF),
arbitrary operation names, variables objects and contexts, several anonymous operations;
(c) a custom error_coercer that suspends at a scheduler gate: awaited exactly once per reported
error, and `errors` is exactly the list of its return values in error order, under every
completion order.  The C lexer/parser is a stub here: robustness of libgraphqlparser itself is not
decided."""
import copy

from simv import gqlstub
from simv.actors import ReqCtx, Runtime, forget
from simv.checks.common import COMMON_ASSUMPTIONS, base_result, exc_violation, pick_engine_cfg, trace_tail
from simv.harness import cook_engine, execute_once, gen_case, make_plan, pick_scheduler, run_digest
from simv.model.exec import enumerate_fault_sites
from simv.oracle import V, check_envelope
from simv.tape import Tape

ID = "C18"
LEVEL = "exploration"
QUICK_RUNS = 6000
CHUNK = 25
RULE = ("seed -> request (as C02, with injected resolver failures so that errors exist) then one corruption of the call: text "
        "mutated at token level (delete / duplicate / swap / insert garbage / truncate), 300-2000 levels of nesting, unicode and "
        "control characters, bytes / BOM / CRLF spellings, several anonymous operations; operation_name from {unknown, empty, "
        "non-string, unhashable}; variables from {non-dict, nested garbage, wrong kinds}; context from {None, scalars, "
        "containers, objects}; engine cooked with or without a custom error_coercer that suspends at a scheduler gate. Oracle: "
        "execute returns a dict with data and, only when something went wrong, non-empty errors with message / path / locations "
        "inside the text / extensions only when set; syntax errors (decided by the parser stub), unknown operation names and "
        "ambiguous anonymous operations give data null and an empty event log; the error coercer is awaited exactly once per "
        "reported error and errors == its return values in error order. Non-trivial = response with errors or a corrupted "
        "call; distinct = digest of (text, operation name, variables, context kind).")
ASSUMPTIONS = COMMON_ASSUMPTIONS + [
    "robustness of the C lexer/parser against arbitrary text is NOT decided: the parser is a stub",
    "query is str or bytes (the property's domain)",
]

GARBAGE = ["\x00", "퟿", "é", "💥", "\\", '"', '"""', "#", "...", "$", "@", "!", "{", "}", "(", ")", "[", "]", ":", "=", "|", "&",
           "0x1F", "1e", "-", ".5", "'", "\t", "\r", "﻿", " ", "query", "fragment", "on", "null", "true", "mutation", "subscription",
           "type Foo { a: Int }", "__schema", "__typename",
           # lone surrogates (half of an emoji cut by a client): a str that cannot be encoded
           "\ud83c", "\udc00", "# \ud800\n", '"\ud83c"']


def tokens_of(text):
    out, cur = [], ""
    for ch in text:
        if ch.isalnum() or ch == "_":
            cur += ch
        else:
            if cur:
                out.append(cur)
                cur = ""
            out.append(ch)
    if cur:
        out.append(cur)
    return out


def mutate_text(text, t):
    toks = tokens_of(text)
    mode = t.draw(7)
    if not toks:
        return text, "empty"
    for _ in range(t.rint(1, 3)):
        i = t.draw(len(toks))
        if mode == 0:
            del toks[i]
            if not toks:
                break
        elif mode == 1:
            toks.insert(i, toks[i])
        elif mode == 2:
            j = t.draw(len(toks))
            toks[i], toks[j] = toks[j], toks[i]
        elif mode == 3:
            toks.insert(i, t.choose(GARBAGE))
        elif mode == 4:
            toks = toks[:i]
            if not toks:
                break
        elif mode == 5:
            toks[i] = t.choose(GARBAGE)
        else:
            toks.insert(i, " " + t.choose(["{", "}", "(", ")"]) + " ")
    return "".join(toks), ["delete", "duplicate", "swap", "insert_garbage", "truncate", "replace", "bracket"][mode]


def parses(text):
    data = text if isinstance(text, bytes) else text.encode("utf-8", "surrogatepass")
    if b"\x00" in data:
        data = data.split(b"\x00")[0]
    try:
        gqlstub.parse_to_json(data)
        return True
    except gqlstub.GqlSyntaxError:
        return False
    except RecursionError:
        return False
    except Exception:  # noqa: BLE001
        return None


class Obj:
    def __repr__(self):
        return "<Obj>"


def run_one(seed, preset=None, tier="quick", want_case=False):
    tape = Tape(seed, preset)
    cfgt = tape.sub("cfg")
    mt = tape.sub("mut")
    case = gen_case(tape, doc_knobs={"max_depth": 3, "max_sel": 4, "max_ops": 3, "max_frags": 3}, schema_knobs={"max_objects": 4})
    base = make_plan(case, tape)
    plan = base
    use_coercer = cfgt.chance(50)
    if not base.refused and (use_coercer or mt.chance(60)):
        sites = enumerate_fault_sites(base)
        if sites:
            faults = {}
            for _ in range(mt.rint(2, 6) if use_coercer else mt.rint(1, 4)):
                p, k = sites[mt.draw(len(sites))]
                faults[p] = k
            t2 = Tape(seed, preset)
            plan = make_plan(case, t2, faults, base=base)
            for k, v in t2.used.items():
                if k.startswith("data") and len(v) > len(tape.used.get(k, ())):
                    tape.used[k] = v
    text, op_name, variables = case.text, case.op_name, copy.deepcopy(case.variables)
    context = None
    kind = mt.weighted([(3, "valid"), (5, "text"), (1, "deep"), (2, "opname"), (2, "variables"), (2, "context"), (2, "spelling"), (1, "anonymous"),
                        (2, "special")])
    detail = kind
    expect_nothing_ran = None
    op_names = [o.name for o in case.doc.operations()]
    if kind == "text":
        text, how = mutate_text(text, mt)
        detail = "text:" + how
    elif kind == "deep":
        n = mt.choose([300, 700, 2000])
        shape = mt.draw(3)
        if shape == 0:
            text = "{ a " * n + "}" * n
        elif shape == 1:
            text = "{ f(x: " + "[" * n + "1" + "]" * n + ") }"
        else:
            text = "{ f(x: " + "{a: " * n + "1" + "}" * n + ") }"
        detail = "deep:%d:%d" % (shape, n)
    elif kind == "opname":
        op_name = mt.choose(["NoSuchOp", "", " ", "op0", 5, 0, True, 1.5, ("a",), ["Op0"], {"a": 1}, b"Op0", Obj()])
        detail = "opname:%r" % (op_name,)
    elif kind == "variables":
        variables = mt.choose([[], [1, 2], "vars", 5, 0.5, True, ("v0",), {"v0": Obj()}, {1: 2}, {"v0": {"deep": [[{"x": Obj()}]]}},
                               {"v0": float("nan")}, {"v0": b"bytes"}, {"": None}, Obj(), {"v0": {"v0": {"v0": None}}}])
        detail = "variables:%s" % type(variables).__name__
    elif kind == "context":
        context = mt.choose([None, 5, "ctx", [], {}, {"x": 1}, Obj(), (1,), 0.0, True])
        detail = "context:%s" % type(context).__name__
    elif kind == "spelling":
        how = mt.draw(5)
        if how == 0:
            text = text.encode("utf-8")
        elif how == 1:
            text = "﻿" + text
        elif how == 2:
            text = text.replace("\n", "\r\n").replace(" ", "\r\n", 2)
        elif how == 3:
            text = b"\xff\xfe" + text.encode("utf-8")[:40] + b"\xc3\x28"
        else:
            text = "# é ü 漢字 💥\n" + text + "\n# trailing comment  "
        detail = "spelling:%d" % how
    elif kind == "anonymous":
        text = "{ __typename } " + text + " { __typename }"
        op_name = None
        detail = "anonymous:3"
    elif kind == "special":
        frag_names = [n for n in case.doc.fragments() if n not in [o.name for o in case.doc.operations()]]
        which = mt.draw(8)
        if which == 0:
            text = mt.choose(["", "   ", "\n\n", "# only a comment\n", ",,,", "\ufeff"])
        elif which == 1:
            text = "fragment OnlyFragment on %s { __typename }" % case.schema.query
        elif which == 2:
            text, op_name = ("mutation { __typename }" if not case.schema.mutation else "subscription { __typename }"), None
        elif which == 3 and frag_names:
            op_name = frag_names[0]  # a fragment's name is not an operation name
        elif which == 4:
            text, op_name = "{ __typename }", mt.choose(["Q", "query", "__typename"])
        elif which == 5:
            text = "query A { __typename } query A { __typename }"
            op_name = "A"
        elif which == 6:
            text, op_name = "type OnlyTypeSystem { a: Int }", None
        else:
            text = "{ __typename @skip }"
        detail = "special:%d" % which
    syntactically_ok = parses(text)
    if syntactically_ok is False:
        expect_nothing_ran = "syntax error"
    elif kind == "anonymous":
        expect_nothing_ran = "ambiguous anonymous operation"
    elif kind == "special" and syntactically_ok and detail in ("special:1", "special:3", "special:4", "special:5", "special:6", "special:7"):
        if detail != "special:3" or frag_names:
            expect_nothing_ran = {"special:1": "no operation in the document", "special:3": "operation name is a fragment's name",
                                  "special:4": "unknown operation name for an anonymous operation", "special:5": "duplicated operation name",
                                  "special:6": "only a type-system definition", "special:7": "directive without its required argument"}[detail]
    elif kind == "special" and syntactically_ok and detail == "special:2" and (
            (text.startswith("mutation") and not case.schema.mutation) or (text.startswith("subscription") and not case.schema.subscription)):
        # the schema has no root type for this kind of operation: there is nothing to execute it against
        expect_nothing_ran = "the schema has no root type for the operation"
    elif kind == "opname" and syntactically_ok:
        try:
            truthy = bool(op_name)
        except Exception:  # noqa: BLE001
            truthy = True
        if truthy and not (isinstance(op_name, str) and op_name in op_names):
            expect_nothing_ran = "unknown operation name %r" % (op_name,)
    cfg = pick_engine_cfg(cfgt)
    sched = pick_scheduler(cfgt)
    coerced = []
    coercer_mode = cfgt.choose(["tag", "tag", "empty", "none"])
    # a schema-level directive that may refuse the whole request from on_schema_execution
    deny_directive = cfgt.chance(25)
    deny_now = deny_directive and cfgt.chance(50)
    if deny_now and kind != "context" and not expect_nothing_ran:
        expect_nothing_ran = "refused by a schema-level directive"
    if deny_directive:
        from simv.model.schema import DirUse, DirectiveDef, print_sdl
        case.schema.schema_directives = [DirUse("deny")]
        case.schema.directives["deny"] = DirectiveDef("deny", ["SCHEMA"])
        case.sdl = print_sdl(case.schema)

    def register_deny(name):
        if not deny_directive:
            return
        from tartiflette import Directive
        from simv.actors import UserError

        class Deny:
            async def on_schema_execution(self, da, nxt, schema, document, parsing_errors, operation_name, context, variables, initial_value):
                rt = getattr(context, "rt", None)
                if rt is not None and getattr(rt, "deny", False):
                    raise UserError("denied by the schema directive")
                return await nxt(schema, document, parsing_errors, operation_name, context, variables, initial_value)

        Directive("deny", schema_name=name)(Deny())

    async def error_coercer(exception, error):
        import asyncio
        loop = asyncio.get_running_loop()
        n = len(coerced)
        rec = {"n": n, "exception": exception, "error": error, "done": False}
        coerced.append(rec)
        loop.ev("coerce_start", n)
        await loop.gate(("coerce", n))
        loop.ev("coerce_done", n)
        rec["done"] = True
        if coercer_mode != "tag" and n % 2:
            rec["ret"] = {} if coercer_mode == "empty" else None  # whatever the coercer returns is what must appear
            return rec["ret"]
        out = dict(error) if isinstance(error, dict) else {"message": str(error)}
        out["coerced_by"] = n
        rec["ret"] = out
        return out

    name = "%s_%d" % (ID, seed)
    extra = {"error_coercer": error_coercer} if use_coercer else {}
    try:
        engine = cook_engine(case.schema, name, cfg, sdl=case.sdl, pre=register_deny, **extra)
        out = execute_once(engine, text, op_name, variables, plan, tape.sub("sched"), sched[0], sched[1],
                           "gate" if use_coercer else sched[2], root_value=plan.root_value,
                           context=context if kind == "context" else None, deny=deny_now, consume_response=not use_coercer)
        out2, n_first = None, len(coerced)
        if use_coercer and out.exc is None and tape.sub("again").chance(50):
            # the same call once more on the same engine (parsed document and its errors now come from the
            # cache): the coercer is awaited again for every error of the second response
            out2 = execute_once(engine, text, op_name, variables, plan, tape.sub("sched2"), sched[0], sched[1], "gate",
                                root_value=plan.root_value, context=context if kind == "context" else None, deny=deny_now,
                                consume_response=False)
    finally:
        forget(name)
    viol = []
    coerced_all = coerced
    coerced = coerced_all[:n_first]
    if out.exc is not None:
        viol.append(exc_violation(out))
        viol[-1]["sig"]["kind"] = kind
    else:
        resp = out.resp
        viol.extend(check_envelope(resp, text, custom_coercer=use_coercer))
        if expect_nothing_ran:
            ran = [e for e in out.events if e[1] in ("start", "finish", "type_resolve", "hook")]
            if isinstance(resp, dict) and resp.get("data") is not None:
                viol.append(V("data_not_null", "%s but data is %r" % (expect_nothing_ran, repr(resp.get("data"))[:200]), why=expect_nothing_ran.split(" ")[0]))
            if isinstance(resp, dict) and not resp.get("errors"):
                viol.append(V("no_errors", "%s but no errors" % expect_nothing_ran, why=expect_nothing_ran.split(" ")[0]))
            if ran:
                viol.append(V("ran_although_refused", "%s but events %r" % (expect_nothing_ran, ran[:3]), why=expect_nothing_ran.split(" ")[0]))
        if use_coercer and isinstance(resp, dict):
            errs = resp.get("errors") or []
            if len(coerced) != len(errs):
                viol.append(V("error_coercer_call_count", "error_coercer awaited %d times for %d reported errors" % (len(coerced), len(errs))))
            elif any(not c["done"] for c in coerced):
                viol.append(V("error_coercer_not_awaited", "an error_coercer call was started but not awaited to completion"))
            else:
                got = [e.get("coerced_by") if isinstance(e, dict) and "coerced_by" in e else None for e in errs]
                want_order = [c["ret"].get("coerced_by") if isinstance(c["ret"], dict) and "coerced_by" in c["ret"] else None for c in coerced]
                if [g for g in got if g is not None] != [w for w in want_order if w is not None]:
                    viol.append(V("error_coercer_order", "errors carry coercer results %r, expected %r (error order)" % (got, want_order)))
                for e, c in zip(errs, coerced):
                    if type(e) is not type(c["ret"]) or e != c["ret"]:
                        viol.append(V("error_coercer_result_not_used", "errors entry %r is not the coercer's return value %r" % (e, c["ret"]),
                                      returned=type(c["ret"]).__name__))
                        break
            seen = set()
            for c in coerced:
                if id(c["error"]) in seen:
                    viol.append(V("error_coerced_twice", "the same error dict was passed to the coercer twice"))
                seen.add(id(c["error"]))
        if out.tasks_alive or out.parked_left:
            viol.append(V("work_left_behind", "%d tasks alive, %d gates parked when execute returned" % (out.tasks_alive, out.parked_left)))
        if out2 is not None:
            second = coerced_all[n_first:]
            if out2.exc is not None:
                viol.append(V("execute_raised", "the repeated call raised %r" % (out2.exc,), exc=type(out2.exc).__name__))
            elif isinstance(out2.resp, dict):
                errs2 = out2.resp.get("errors") or []
                if len(second) != len(errs2):
                    viol.append(V("error_coercer_call_count", "repeated call: error_coercer awaited %d times for %d reported errors" % (
                        len(second), len(errs2)), repeated=True))
                elif any(type(e) is not type(c["ret"]) or e != c["ret"] for e, c in zip(errs2, second)):
                    viol.append(V("error_coercer_result_not_used", "repeated call: errors %r are not the coercer's return values %r" % (
                        errs2[:3], [c["ret"] for c in second][:3]), repeated=True))
                if ("data" in out2.resp) != ("data" in resp) or (out2.resp.get("data") != resp.get("data")) or len(errs2) != len(resp.get("errors") or []):
                    viol.append(V("repeated_call_differs", "the same call repeated on the same engine: %r then %r" % (
                        repr(resp)[:300], repr(out2.resp)[:300])))
    for v in viol:
        v["sig"].setdefault("call", kind)
    r = base_result(tape, out, viol)
    r["digest"] = run_digest(out.trace, out.events, out.resp, repr(out.exc))
    r["case_digest"] = run_digest(repr(text), repr(op_name), repr(variables), detail)
    has_errors = isinstance(out.resp, dict) and bool(out.resp.get("errors"))
    r["nontrivial"] = bool(not viol and (has_errors or kind != "valid"))
    r["sched_kinds"] = {sched[0] + ("+eager" if sched[2].endswith("+eager") else ""): 1}
    r["faults"] = {"call_" + kind: 1}
    for k, n in plan.faults_fired.items():
        r["faults"][k] = r["faults"].get(k, 0) + n
    r["metrics"] = {"errors_reported": len(out.resp.get("errors") or []) if isinstance(out.resp, dict) else 0,
                    "error_coercer_calls": len(coerced)}
    r["probes"] = {"syntax_error": int(syntactically_ok is False), "parsed_after_corruption": int(kind == "text" and bool(syntactically_ok)),
                   "nothing_may_run": int(bool(expect_nothing_ran)), "custom_error_coercer": int(use_coercer),
                   "coercer_with_ge2_errors": int(use_coercer and len(coerced) >= 2), "response_with_errors": int(has_errors),
                   "coercer_returns_falsy": int(use_coercer and coercer_mode != "tag" and len(coerced) >= 2),
                   "denied_by_schema_directive": int(bool(deny_now)), "call_repeated_with_coercer": int(out2 is not None)}
    if viol:
        from simv.model.document import doc_to_json
        r["doc_model"] = doc_to_json(case.doc)
    if want_case or viol:
        r["case"] = {"sdl": case.sdl, "query": repr(text)[:3000], "operation_name": repr(op_name), "variables": repr(variables)[:500],
                     "context": repr(context), "call": detail, "expect_nothing_ran": expect_nothing_ran, "custom_error_coercer": use_coercer,
                     "response": repr(out.resp)[:2000]}
        r["trace"] = trace_tail(out)
    return r
