"""C13 -- directive hooks wrap their target exactly once, nested in declaration order.

One run = a schema family decorated with 0-3 *tagging* directives at every attachable location
(scalar, enum, enum value, input object, input field, argument, field definition, object, interface,
union, schema, and fields in the query), requests supplying inputs as literals, variables and nested
variables, every hook suspending at a simulator point.  Hooks apply non-commuting tags to string
values and `_t` trails to input objects, and log (hook, instance, directive args).  The expected
composition is folded directly from the property's statement."""
import asyncio
import json

from simv import boot  # noqa: F401
from simv.actors import ReqCtx, Runtime, canon, forget
from simv.checks.common import COMMON_ASSUMPTIONS, base_result, exc_violation, trace_tail
from simv.harness import Out, pick_scheduler, run_digest
from simv.oracle import V, check_envelope, first_diff, same
from simv.simloop import SimDeadlock, SimLoop, SimStepCap, run_sim
from simv.tape import Tape

from tartiflette import Directive, Resolver, Scalar, TypeResolver, create_engine
from tartiflette.constants import UNDEFINED_VALUE
from tartiflette.language.ast import StringValueNode

ID = "C13"
LEVEL = "exploration"
QUICK_RUNS = 2500
CHUNK = 20
RULE = ("seed -> arrangement of 0-3 tagging directive applications (3 directive definitions, each instance with a unique id "
        "argument and an Int argument given literally, by default or through a variable) on every attachable element of a schema "
        "family {scalar S, enum E and its values, input object In and its fields, arguments of Query.echo, field definitions, "
        "object O, interface / union members, schema} and on fields of the request; inputs written as literals, variables and "
        "variables nested in object / list literals; every hook suspends at a scheduler point. Oracle: (history) every applicable "
        "hook of every instance fired exactly once per governed value / field execution with that instance's coerced arguments; "
        "(value) tags seen by the resolver and in data equal the fold 'first declared outermost; query-side around schema-side; "
        "value -> type-level input hooks -> input-field / input-object hooks -> argument hooks -> field hooks -> resolver -> "
        "output hooks -> serialisation'; literal == variable. Non-trivial = >= 4 hook invocations across >= 3 hook kinds; "
        "distinct = (arrangement, request) digest.")
ASSUMPTIONS = COMMON_ASSUMPTIONS + [
    "the relative order of enum-value and enum-type hooks is not asserted (the property does not fix it)",
    "hooks tag after awaiting the next stage (post-order), so the first declared directive's tag is outermost",
]

DIRS = ("t0", "t1", "t2")
LOCS = ("SCHEMA | SCALAR | OBJECT | FIELD_DEFINITION | ARGUMENT_DEFINITION | INTERFACE | UNION | ENUM | ENUM_VALUE | "
        "INPUT_OBJECT | INPUT_FIELD_DEFINITION | FIELD")


class Inst:
    """One directive application @tK(n: "<id>", k: <int or default>)."""

    def __init__(self, dname, iid, k=None, kvar=None, e=None, o=None):
        self.d, self.id, self.k, self.kvar = dname, iid, k, kvar
        self.e, self.o = e, o  # enum-typed / input-object-typed arguments given explicitly (else defaulted)
        self.oxvar = None  # query side: `o: {x: $var}` - a variable NESTED in the directive's object argument

    def sdl(self):
        s = '@%s(n: "%s"' % (self.d, self.id)
        if self.kvar:
            s += ", k: $%s" % self.kvar
        elif self.k is not None:
            s += ", k: %d" % self.k
        if self.e is not None:
            s += ", e: %s" % self.e
        if self.oxvar is not None:
            s += ", o: {x: $%s}" % self.oxvar
        elif self.o is not None:
            s += ", o: {y: %s}" % self.o
        return s + ")"

    def args(self, variables, arr=None):
        k = 5
        if self.kvar:
            k = variables[self.kvar]
        elif self.k is not None:
            k = self.k
        out = {"n": self.id, "k": k}
        if self.d in DIRS and arr is not None:
            # the tagging directives take an argument of scalar type A (default "z"): coercing a
            # directive instance's arguments runs A's own type-level hooks every time
            a = "in:z"
            for au in reversed(arr.at.get("A", [])):
                a = tag_in(au.id, a)
            out["a"] = a
        if self.d in DIRS:
            # enum-typed and input-object-typed directive arguments (explicit or defaulted, with the
            # input object's own field defaults filled in)
            out["e"] = self.e if self.e is not None else "X"
            if self.oxvar is not None:
                out["o"] = {"x": variables[self.oxvar], "y": "X"}
            else:
                out["o"] = {"x": 3, "y": self.o} if self.o is not None else {"x": 1, "y": "X"}
        return out


class Arr:
    """The arrangement: element key -> [Inst]."""

    def __init__(self, t):
        self.t = t
        self.n = 0
        self.at = {}

    def gen(self, key, allow_var=False, pct=55):
        t = self.t
        out = []
        if t.chance(pct):
            n = t.weighted([(3, 1), (2, 2), (1, 3)])
            # schema-side, the same directive may be applied several times to one element (each
            # instance with its own arguments); query-side instances must be distinct per location
            names = [t.choose(DIRS) for _ in range(n)] if t.chance(35) else t.shuffle(DIRS)[:n]
            for d in names:
                self.n += 1
                k = t.choose([None, None, 1, 7])
                inst = Inst(d, "%s%d" % (key.replace(".", "_"), self.n), k)
                xt = getattr(self, "xt", None)
                if xt is not None and xt.chance(25):
                    inst.e = xt.choose(["X", "Y"])
                if xt is not None and xt.chance(20):
                    inst.o = xt.choose(["X", "Y"])
                if xt is not None and key in ("O", "P") and xt.chance(12):
                    inst.k = 9  # this instance's output hook hides the object: it returns None
                if xt is not None and key in ("In.f", "In.g", "In.l", "In.sub") and xt.chance(10):
                    inst.k = 8  # this instance's input hook redacts the value: it returns None
                out.append(inst)
        self.at[key] = out
        return out

    def s(self, key):
        return "".join(" " + i.sdl() for i in self.at.get(key, []))


ENUM_NAMES = ("A", "B", "C")  # enum names must stay enum names: never tagged


def _tag(fmt, iid, v):
    return fmt % (iid, v) if (isinstance(v, str) and v not in ENUM_NAMES) else v


def tag_in(iid, v):
    return _tag("%s(%s)", iid, v)


def tag_arg(iid, v):
    return _tag("%s[%s]", iid, v)


def tag_field(iid, v):
    return _tag("%s<%s>", iid, v)


def tag_out(iid, v):
    return _tag("%s{%s}", iid, v)


def trail(iid, v):
    if isinstance(v, dict):
        v = dict(v)
        v["_t"] = v.get("_t", "") + iid + ","
    return v


def make_directive(dname, sname):
    class Tagger:
        async def _pre(self, hook, da, ctx):
            # some call paths coerce a directive's own arguments without a context (ctx is None there)
            rt = ctx.rt if ctx is not None else asyncio.get_running_loop().default_rt
            rt.loop.ev("hook", rt.rid, hook, da.get("n"), canon(da))
            rt.hooks.append((hook, da.get("n"), dict(da)))
            await rt.loop.point(("hook", hook, da.get("n")))

        async def on_post_input_coercion(self, da, nxt, parent_node, value, ctx):
            await self._pre("input", da, ctx)
            v = await nxt(parent_node, value, ctx)
            if da.get("k") == 8:
                return None  # what a hook returns is what the next stage sees: the value is null from here on
            return trail(da["n"], tag_in(da["n"], v))

        async def on_argument_execution(self, da, nxt, parent_node, arg_def, arg_node, value, ctx):
            await self._pre("argument", da, ctx)
            v = await nxt(parent_node, arg_def, arg_node, value, ctx)
            return trail(da["n"], tag_arg(da["n"], v))

        async def on_field_execution(self, da, nxt, parent, args, ctx, info):
            await self._pre("field", da, ctx)
            v = await nxt(parent, args, ctx, info)
            return tag_field(da["n"], v)

        async def on_pre_output_coercion(self, da, nxt, value, ctx, info):
            await self._pre("output", da, ctx)
            v = await nxt(value, ctx, info)
            if da.get("k") == 9 and v is not None and not isinstance(v, str):
                return None  # what a hook returns is what the next stage sees: the object is null from here on
            return tag_out(da["n"], v)

        async def on_schema_execution(self, da, nxt, schema, document, parsing_errors, operation_name, context, variables, initial_value):
            await self._pre("schema", da, context)
            return await nxt(schema, document, parsing_errors, operation_name, context, variables, initial_value)

    if dname == "t2":
        # hooks INHERITED from a base class (a mixin carrying the behaviour)
        Tagger = type("Tagger_t2", (Tagger,), {})
    impl = Tagger()
    if dname in ("t1", "au"):
        # an implementation whose hooks are INSTANCE attributes (bound in a constructor / set with setattr), not
        # functions found on its class
        bare = type("Impl_" + dname, (), {})()
        for hook in ("on_post_input_coercion", "on_argument_execution", "on_field_execution", "on_pre_output_coercion", "on_schema_execution"):
            setattr(bare, hook, getattr(impl, hook))
        impl = bare
    Directive(dname, schema_name=sname)(impl)


class S:
    def coerce_output(self, v):
        return "out:" + str(v)

    def coerce_input(self, v):
        if not isinstance(v, str):
            raise TypeError("S")
        return "in:" + v

    def parse_literal(self, ast):
        return "in:" + ast.value if isinstance(ast, StringValueNode) else UNDEFINED_VALUE


def build(tape):
    t = tape.sub("schema")
    a = Arr(t)
    a.xt = tape.sub("dargs")
    a.at["A"] = []
    for _ in range(t.weighted([(2, 0), (2, 1), (1, 2)])):
        a.n += 1
        a.at["A"].append(Inst("au", "A%d" % a.n, t.choose([None, 2])))
    for key in ("schema", "S", "E", "E.A", "E.B", "In", "In.f", "In.g", "In.l", "In.sub", "echo.a", "echo.i", "echo.e", "echo.l",
                "Query.echo", "Query.o", "Query.u", "O", "O.s", "O.e", "O.l", "P", "P.s", "F", "U"):
        a.gen(key)
    xt = tape.sub("ext")
    exts = []

    def split(key, kind_kw, name):
        """Directive applications of a type: a prefix stays on the definition, the rest moves to an
        `extend` definition (which may only add directives that are not applied already)."""
        insts = a.at.get(key, [])
        if insts and xt.chance(35):
            j = xt.rint(0, len(insts) - 1)
            head, tail = insts[:j], insts[j:]
            tn = [i.d for i in tail]
            if len(set(tn)) == len(tn) and not (set(tn) & {i.d for i in head}):
                exts.append("extend %s%s%s" % (kind_kw, (" " + name) if name else "", "".join(" " + i.sdl() for i in tail)))
                return "".join(" " + i.sdl() for i in head)
        return a.s(key)

    def moved(chunk_if_moved, text_if_kept, pct=25):
        """A member either stays in its definition or moves (with its directives) to an extension."""
        if xt.chance(pct):
            exts.append(chunk_if_moved)
            return ""
        return text_if_kept

    d_A, d_S, d_E, d_In, d_F = split("A", "scalar", "A"), split("S", "scalar", "S"), split("E", "enum", "E"), split("In", "input", "In"), split("F", "interface", "F")
    d_O, d_P, d_U, d_schema = split("O", "type", "O"), split("P", "type", "P"), split("U", "union", "U"), split("schema", "schema", "")
    e_B = moved("extend enum E { B%s }" % a.s("E.B"), " B%s" % a.s("E.B"))
    in_sub = moved("extend input In { sub: In%s }" % a.s("In.sub"), " sub: In%s" % a.s("In.sub"))
    o_l = moved("extend type O { l: [S]%s }" % a.s("O.l"), " l: [S]%s" % a.s("O.l"))
    p_impl = moved("extend type P implements F", " implements F", 20)
    u_p = moved("extend union U = P", " | P", 20)
    q_u = moved("extend type Query { u: [U]%s }" % a.s("Query.u"), "  u: [U]%s" % a.s("Query.u"))
    sdl = "\n".join("directive @%s(n: String!, k: Int = 5, a: A = \"z\", e: K = X, o: KI = {x: 1}) on %s" % (d, LOCS) for d in DIRS) + """
directive @au(n: String!, k: Int = 5) on SCALAR
enum K { X Y }
input KI { x: Int = 3, y: K = X }
scalar A%s
scalar S%s
enum E%s { A%s%s C }
input In%s { f: S%s g: E%s l: [S!]%s%s }
interface F%s { s: S }
type O implements F%s { s: S%s e: E%s%s }
type P%s%s { s: S%s }
union U%s = O%s
type Query { echo(a: S%s, i: In%s, e: E%s, l: [S!]%s): String%s  o: O%s%s  fs: [F] }
schema%s { query: Query }
""" % (d_A, d_S, d_E, a.s("E.A"), e_B, d_In, a.s("In.f"), a.s("In.g"), a.s("In.l"), in_sub, d_F,
       d_O, a.s("O.s"), a.s("O.e"), o_l, p_impl, d_P, a.s("P.s"), d_U, u_p,
       a.s("echo.a"), a.s("echo.i"), a.s("echo.e"), a.s("echo.l"), a.s("Query.echo"), a.s("Query.o"), q_u, d_schema)
    if exts:
        exts = xt.shuffle(exts)
        cut = xt.rint(0, len(exts)) if xt.chance(40) else 0
        sdl = "\n".join(exts[:cut]) + "\n" + sdl + "\n".join(exts[cut:]) + "\n"
    a.n_exts = len(exts)
    return a, sdl


class Expect:
    """Folds the documented composition and counts the hook invocations it implies."""

    def __init__(self, arr, variables):
        self.a = arr
        self.vars = variables
        self.hooks = []  # (hook kind, instance id, args)

    def fire(self, kind, inst):
        if inst.d in DIRS:
            for au in reversed(self.a.at.get("A", [])):
                self.hooks.append(("input", au.id, au.args(self.vars)))
        self.hooks.append((kind, inst.id, inst.args(self.vars, self.a)))

    def apply(self, key, kind, fn, v):
        for inst in reversed(self.a.at.get(key, [])):
            self.fire(kind, inst)
            v = None if (kind == "input" and inst.k == 8) else fn(inst.id, v)
        return v

    def in_S(self, raw):
        # type-level hooks also run for null values (they receive None)
        return self.apply("S", "input", tag_in, None if raw is None else "in:" + raw)

    def in_E(self, name):
        if name in ("A", "B"):
            self.apply("E." + name, "input", tag_in, name)
        self.apply("E", "input", tag_in, name)
        return name

    def in_In(self, obj):
        """obj: semantic dict {'f': str|None, 'g': name|None, 'l': [str], 'sub': obj} (absent keys omitted)."""
        if obj is None:
            return self.apply("In", "input", lambda i, x: trail(i, tag_in(i, x)), None)
        out = {}
        for k in ("f", "g", "l", "sub"):
            if k not in obj:
                continue
            v = obj[k]
            if v is None and k == "l":
                v2 = None  # a null list never reaches its item type
            elif k == "f":
                v2 = self.in_S(v)
            elif k == "g":
                v2 = self.in_E(v)
            elif k == "l":
                v2 = [self.in_S(x) for x in v]
            else:
                v2 = self.in_In(v)
            v2 = self.apply("In." + k, "input", lambda i, x: trail(i, tag_in(i, x)), v2)
            out[k] = v2
        return self.apply("In", "input", lambda i, x: trail(i, tag_in(i, x)), out)

    def arg(self, name, v):
        return self.apply("echo." + name, "argument", lambda i, x: trail(i, tag_arg(i, x)), v)

    def field(self, key, query_insts, resolver_value):
        v = resolver_value
        for inst in reversed(self.a.at.get(key, [])):
            self.fire("field", inst)
            v = tag_field(inst.id, v)
        for inst in reversed(query_insts):
            self.fire("field", inst)
            v = tag_field(inst.id, v)
        return v

    def out_S(self, v):
        # output hooks of the type run for null values too (they receive None)
        v = self.apply("S", "output", tag_out, v)
        return None if v is None else "out:" + v

    def out_E(self, name):
        if name is None:
            self.apply("E", "output", tag_out, None)
            return None
        if name in ("A", "B"):
            self.apply("E." + name, "output", tag_out, None)
        self.apply("E", "output", tag_out, None)
        return name

    def out_obj(self, tname):
        self.apply(tname, "output", tag_out, None)


def sem_value_In(t, depth=0):
    obj = {}
    if t.chance(70):
        obj["f"] = t.choose(["v", "w", None])
    if t.chance(60):
        obj["g"] = t.choose(["A", "B", "C", None])
    if t.chance(50):
        obj["l"] = [t.choose(["p", "q"]) for _ in range(t.rint(0, 2))]
    if depth < 1 and t.chance(35):
        obj["sub"] = sem_value_In(t, depth + 1)
    return obj


def lit_In(obj, mode, t, newvar):
    """GraphQL literal text of an In value; mode 'nested' replaces some sub-values by variables."""
    parts = []
    for k, v in obj.items():
        if mode == "nested" and t.chance(45):
            ty = {"f": "S", "g": "E", "l": "[S!]", "sub": "In"}[k]
            parts.append("%s: $%s" % (k, newvar(ty, json_In(v) if k == "sub" else v)))
            continue
        if v is None:
            parts.append("%s: null" % k)
        elif k == "f":
            parts.append('%s: "%s"' % (k, v))
        elif k == "g":
            parts.append("%s: %s" % (k, v))
        elif k == "l":
            parts.append("%s: [%s]" % (k, ", ".join('"%s"' % x for x in v)))
        else:
            parts.append("%s: %s" % (k, lit_In(v, mode, t, newvar)))
    return "{" + ", ".join(parts) + "}"


def json_In(obj):
    return {k: (json_In(v) if k == "sub" and v is not None else v) for k, v in obj.items()}


def run_one(seed, preset=None, tier="quick", want_case=False):
    tape = Tape(seed, preset)
    cfgt = tape.sub("cfg")
    dt = tape.sub("doc")
    arr, sdl = build(tape)
    name = "%s_%d" % (ID, seed)
    variables = {}
    vardefs = []

    def newvar(ty, value):
        vn = "v%d" % len(vardefs)
        vardefs.append("$%s: %s" % (vn, ty))
        variables[vn] = value
        return vn

    # ---- request ------------------------------------------------------------------------------
    fields = []  # (alias, text, expectation thunk)
    n_echo = dt.rint(1, 3)
    qn = [0]

    def query_dirs():
        out = []
        if dt.chance(40):
            for d in dt.shuffle(DIRS)[: dt.rint(1, 2)]:
                qn[0] += 1
                inst = Inst(d, "q%d" % qn[0], dt.choose([None, 3]))
                if dt.chance(35):
                    inst.kvar = newvar("Int", dt.choose([11, 12]))
                if tape.sub("dnest").chance(30):
                    inst.oxvar = newvar("Int", tape.sub("dnest").choose([21, 22]))
                out.append(inst)
        return out

    plans = []
    merged = [0]
    for i in range(n_echo):
        alias = "e%d" % i
        args_txt, sem = [], {}
        nt = tape.sub("topnull")
        if dt.chance(60):
            raw = dt.choose(["v", "w"])
            mode = dt.choose(["lit", "var"])
            if nt.chance(15):
                raw = None  # a null given directly as the argument's value (literal `null` / null variable)
            args_txt.append(('a: "%s"' % raw if raw is not None else "a: null") if mode == "lit" else "a: $%s" % newvar("S", raw))
            sem["a"] = (raw, mode)
        if dt.chance(60):
            obj = sem_value_In(dt)
            mode = dt.choose(["lit", "var", "nested"])
            args_txt.append("i: " + (lit_In(obj, mode, dt, newvar) if mode != "var" else "$" + newvar("In", json_In(obj))))
            sem["i"] = (obj, mode)
        if dt.chance(40):
            ev = dt.choose(["A", "B", "C"])
            mode = dt.choose(["lit", "var"])
            if nt.chance(15):
                ev = None
            args_txt.append("e: " + ((ev or "null") if mode == "lit" else "$" + newvar("E", ev)))
            sem["e"] = (ev, mode)
        if dt.chance(40):
            lv = [dt.choose(["p", "q"]) for _ in range(dt.rint(0, 2))]
            mode = dt.choose(["lit", "var"])
            args_txt.append("l: " + ("[%s]" % ", ".join('"%s"' % x for x in lv) if mode == "lit" else "$" + newvar("[S!]", lv)))
            sem["l"] = (lv, mode)
        qd = query_dirs()
        fields.append("%s: echo%s%s" % (alias, "(" + ", ".join(args_txt) + ")" if args_txt else "", "".join(" " + q.sdl() for q in qd)))
        if dt.chance(25):
            # the same response key selected a second time (merged field nodes) with its own directives:
            # one field execution governed by the directives of both nodes, first node outermost
            qd2 = query_dirs()
            # kept in one entry so that shuffling the selections keeps the two nodes in this order
            fields[-1] += " %s: echo%s%s" % (alias, "(" + ", ".join(args_txt) + ")" if args_txt else "", "".join(" " + q.sdl() for q in qd2))
            qd = qd + qd2
            merged[0] += 1
        plans.append(("echo", alias, sem, qd))
    if dt.chance(60):
        qd = query_dirs()
        qs = query_dirs()
        fields.append("o%s { s%s e l }" % ("".join(" " + q.sdl() for q in qd), "".join(" " + q.sdl() for q in qs)))
        plans.append(("o", "o", None, (qd, qs)))
    if dt.chance(45):
        fields.append("u { ... on O { s e } ... on P { s } }")
        plans.append(("u", "u", None, None))
    if dt.chance(35):
        fields.append("fs { s }")
        plans.append(("fs", "fs", None, None))
    if dt.chance(30):
        fields = dt.shuffle(fields)
    text = "query Q%s { %s }" % ("(" + ", ".join(vardefs) + ")" if vardefs else "", " ".join(fields))

    # ---- expectation ----------------------------------------------------------------------------
    # variable coercion happens once per request, in definition order is irrelevant for the multiset
    ex = Expect(arr, variables)
    for inst in reversed(arr.at.get("schema", [])):
        ex.fire("schema", inst)
    o_data = {"s": dt.choose(["x", "y", None]), "e": dt.choose(["A", "B", "C", None]), "l": [dt.choose(["m", None]) for _ in range(dt.rint(0, 2))]}
    u_data = [dt.choose([("O", {"s": "x", "e": "A", "l": []}), ("P", {"s": "z"}), None]) for _ in range(dt.rint(0, 3))]
    fs_data = [dt.choose([("O", {"s": "k", "e": None, "l": []}), ("P", {"s": None})]) for _ in range(dt.rint(0, 2))]
    expected = {}

    def hidden(tn):
        return any(i.k == 9 for i in arr.at.get(tn, []))

    order = [f.split(":")[0].split("{")[0].split(" ")[0].split("(")[0].strip() for f in fields]
    byalias = {p[1]: p for p in plans}
    seen_alias = set()
    for alias in order:
        if alias in seen_alias:
            continue
        seen_alias.add(alias)
        kind, _, sem, qd = byalias[alias]
        if kind == "echo":
            args = {}
            for an in ("a", "i", "e", "l"):
                if an not in sem:
                    continue
                val, mode = sem[an]
                if an == "a":
                    v = ex.in_S(val)
                elif an == "i":
                    v = ex.in_In(val)
                elif an == "e":
                    v = ex.in_E(val)
                else:
                    v = [ex.in_S(x) for x in val]
                args[an] = ex.arg(an, v)
            res = json.dumps(args, sort_keys=True)
            expected[alias] = ex.field("Query.echo", qd, res)
        elif kind == "o":
            qd, qs = qd
            ex.field("Query.o", qd, None)
            ex.out_obj("O")
            if hidden("O"):
                expected["o"] = None
                continue
            s = ex.field("O.s", qs, o_data["s"])
            e = ex.field("O.e", [], o_data["e"])
            ex.field("O.l", [], None)
            expected["o"] = {"s": ex.out_S(s), "e": ex.out_E(e), "l": [ex.out_S(x) for x in o_data["l"]]}
        elif kind == "u":
            ex.field("Query.u", [], None)
            outl = []
            for item in u_data:
                if item is None:
                    ex.out_obj("U")  # the declared type's output hooks receive the null item
                    outl.append(None)
                    continue
                tn, d = item
                ex.out_obj("U")
                ex.out_obj(tn)
                if hidden(tn):
                    outl.append(None)
                    continue
                if tn == "O":
                    s = ex.field("O.s", [], d["s"])
                    e = ex.field("O.e", [], d["e"])
                    outl.append({"s": ex.out_S(s), "e": ex.out_E(e)})
                else:
                    s = ex.field("P.s", [], d["s"])
                    outl.append({"s": ex.out_S(s)})
            expected["u"] = outl
        else:
            outl = []
            for tn, d in fs_data:
                ex.out_obj("F")
                ex.out_obj(tn)
                if hidden(tn):
                    outl.append(None)
                    continue
                s = ex.field(tn + ".s", [], d["s"])
                outl.append({"s": ex.out_S(s)})
            expected["fs"] = outl

    # ---- engine run -------------------------------------------------------------------------------
    sch = pick_scheduler(cfgt)
    loop = SimLoop(tape.sub("sched"), sch[0], sch[1], sch[2])
    rt = Runtime(0, loop, None)
    rt.hooks = []
    loop.default_rt = rt
    ctx = ReqCtx(rt)
    out = Out()
    out.rt = rt

    async def main():
        for d in DIRS + ("au",):
            make_directive(d, name)
        Scalar("S", schema_name=name)(S())
        Scalar("A", schema_name=name)(S())

        def res(fn):
            async def r(parent, args, c, info):
                c.rt.loop.ev("start", c.rt.rid, tuple(info.path.as_list()))
                await c.rt.loop.point(("res",) + tuple(info.path.as_list()))
                return fn(parent, args)
            return r

        Resolver("Query.echo", schema_name=name)(res(lambda p, a: json.dumps(a, sort_keys=True)))
        Resolver("Query.o", schema_name=name)(res(lambda p, a: dict(o_data)))
        Resolver("Query.u", schema_name=name)(res(lambda p, a: [None if x is None else dict(x[1], _typename=x[0]) for x in u_data]))
        Resolver("Query.fs", schema_name=name)(res(lambda p, a: [dict(x[1], _typename=x[0]) for x in fs_data]))
        Resolver("O.s", schema_name=name)(res(lambda p, a: p["s"]))
        engine = await create_engine(sdl, schema_name=name, coerce_list_concurrently=cfgt.choose([None, True, False]),
                                     coerce_parent_concurrently=cfgt.choose([None, True, False]))
        return await engine.execute(text, context=ctx, variables=json.loads(json.dumps(variables)))

    try:
        out.resp = run_sim(loop, main())
    except (SimDeadlock, SimStepCap) as e:
        out.exc = e
    except Exception as e:  # noqa: BLE001
        out.exc = e
    finally:
        forget(name)
    out.events, out.trace = loop.events, loop.trace
    out.releases, out.multi_choice, out.max_parked, out.vsec, out.order = loop.releases, loop.multi_choice, loop.max_parked, loop.vsec, loop.order_digest()
    viol = []
    if out.exc is not None:
        viol.append(exc_violation(out))
    else:
        viol.extend(check_envelope(out.resp, text))
        if out.resp.get("errors"):
            viol.append(V("unexpected_errors", "errors %r" % (out.resp["errors"][:2],)))
        elif not same(out.resp.get("data"), expected):
            viol.append(V("composition_differs", "data differs from the documented composition: %s" % first_diff(out.resp.get("data"), expected)))
        got = sorted((h, i, canon(a)) for h, i, a in rt.hooks)
        want = sorted((h, i, canon(a)) for h, i, a in ex.hooks)
        if got != want:
            from collections import Counter
            cg, cw = Counter(got), Counter(want)
            extra = list((cg - cw).items())[:4]
            missing = list((cw - cg).items())[:4]
            viol.append(V("hook_invocations_differ", "hook invocations differ: more than expected %r; fewer than expected %r" % (extra, missing),
                          more=bool(extra), fewer=bool(missing)))
    kinds = {}
    for h, i, a in rt.hooks:
        kinds[h] = kinds.get(h, 0) + 1
    r = base_result(tape, out, viol)
    r["digest"] = run_digest(out.trace, out.events, out.resp, repr(out.exc))
    r["case_digest"] = run_digest(sdl, text, variables)
    r["nontrivial"] = bool(not viol and len(rt.hooks) >= 4 and len(kinds) >= 3)
    r["sched_kinds"] = {sch[0] + ("+eager" if sch[2].endswith("+eager") else ""): 1}
    r["metrics"] = {"hook_invocations": len(rt.hooks), "directive_instances": arr.n + qn[0]}
    r["probes"] = {"hook_" + k: v for k, v in kinds.items()}
    r["probes"]["query_side_directive"] = int(qn[0] > 0)
    r["probes"]["merged_field_nodes_with_directives"] = merged[0]
    r["probes"]["directive_argument_type_has_hooks"] = int(bool(arr.at.get("A")))
    r["probes"]["directive_arg_through_variable"] = int("k: $" in text)
    r["probes"]["nested_variable_in_object_literal"] = int(any(p[0] == "echo" and "i" in p[2] and p[2]["i"][1] == "nested" for p in plans))
    r["faults"] = {}
    if want_case or viol:
        r["case"] = {"sdl": sdl, "query": text, "variables": variables, "expected_data": repr(expected)[:2500],
                     "response": repr(out.resp)[:2500], "hooks_seen": [repr(h) for h in rt.hooks[:60]],
                     "hooks_expected": [repr(h) for h in ex.hooks[:60]]}
        r["trace"] = trace_tail(out)
    return r
