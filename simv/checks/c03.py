"""C03 -- returned data conforms to schema and selection whatever resolvers return.

C02's runs with a different fault: resolvers (and the data objects read by default resolvers, and
list items) *return* values from an adversarial universe.  The oracle needs no expected value:
execute never raises, the response is JSON-serialisable, non-null data conforms to the schema and
the selection, untouched parts equal the reference, and every null standing where something
non-null was supplied is explained by an error at or below it."""
import math

from simv.actors import forget
from simv.checks.common import COMMON_ASSUMPTIONS, base_result, exc_violation, pick_engine_cfg, trace_tail
from simv.gen.adversarial import adversarial
from simv.harness import cook_engine, execute_once, gen_case, make_plan, pick_scheduler, run_digest
from simv.model.exec import OPAQUE, RefExec, _strip, poke
from simv.model.schema import is_nn, named
from simv.oracle import V, check_envelope, first_diff, same
from simv.tape import Tape

ID = "C03"
LEVEL = "exploration"
QUICK_RUNS = 6000
CHUNK = 20
RULE = ("seed -> request (as C01); 1..all of its positions (resolver results, list items, attributes/keys read by default "
        "resolvers) are replaced by values drawn from an adversarial universe (every JSON shape, bool/int/float at and beyond "
        "2^31, 2^53, 1e400, +-0.0, denormals, NaN, +-inf, numeric/blank/padded/unicode-digit strings, bytes, tuples, sets, "
        "generators, ranges, Decimal, Fraction, datetime, enum members, attribute objects with/without _typename, exception "
        "instances, objects whose __str__/__eq__ raise). Oracle: execute returns; response JSON-serialisable (allow_nan=False); "
        "data conforms to schema + selection (exact response keys for some possible runtime type, lists where declared, no null "
        "at non-null, Int int32 not bool, Float finite, String/ID str, Boolean bool, enum among declared names); parts not under a "
        "corrupted position equal the reference; a null where a non-null value was supplied has an error at or below it. "
        "Non-trivial = >= 1 corrupted position reached by the engine; distinct = (request, corruption) digest.")
ASSUMPTIONS = COMMON_ASSUMPTIONS + [
    "off-type result coercions the spec allows (numeric strings for Int, numbers for String, ...) are checked structurally only",
]


class Conform:
    def __init__(self, schema, refexec):
        self.s = schema
        self.rx = refexec
        self.why = None

    def leaf_ok(self, name, v):
        if name == "Int":
            return isinstance(v, int) and not isinstance(v, bool) and -(2 ** 31) <= v <= 2 ** 31 - 1
        if name == "Float":
            return (isinstance(v, float) and math.isfinite(v)) or (isinstance(v, int) and not isinstance(v, bool))
        if name in ("String", "ID"):
            return isinstance(v, str)  # a str subclass is a string (and JSON-serialisable)
        if name == "Boolean":
            return type(v) is bool
        td = self.s.types[name]
        if td.kind == "ENUM":
            return isinstance(v, str) and v in td.names()
        if td.custom == "xstr":
            return isinstance(v, str) and v.startswith("x:")
        if td.custom == "xnum":
            return isinstance(v, int) and not isinstance(v, bool)
        return False

    def value(self, v, ty, nodes, path):
        if is_nn(ty):
            if v is None:
                self.why = "null at non-null position %r" % (list(path),)
                return False
            return self.value(v, ty[1], nodes, path)
        if v is None:
            return True
        if ty[0] == "L":
            if type(v) is not list:
                self.why = "%r: %s where a list is declared" % (list(path), type(v).__name__)
                return False
            return all(self.value(x, ty[1], nodes, path + (i,)) for i, x in enumerate(v))
        name = ty[1]
        kind = self.s.kind_of(name)
        if kind in ("SCALAR", "ENUM"):
            if not self.leaf_ok(name, v):
                self.why = "%r: %r (%s) is not a valid %s" % (list(path), v, type(v).__name__, name)
                return False
            return True
        if type(v) is not dict:
            self.why = "%r: %s where an object is declared" % (list(path), type(v).__name__)
            return False
        cands = [name] if kind == "OBJECT" else self.s.possible(name)
        last = None
        for c in cands:
            groups = {}
            visited = set()
            for f in nodes:
                if f.sels:
                    self.rx.collect(c, f.sels, visited, groups)
            if list(groups.keys()) != list(v.keys()):
                last = "%r: keys %r are not the selected response keys of %s %r" % (list(path), list(v.keys()), c, list(groups.keys()))
                continue
            ok = True
            for key, fields in groups.items():
                fname = fields[0].name
                if fname == "__typename":
                    if v[key] != c:
                        ok = False
                        last = "%r: __typename %r for runtime type %s" % (list(path + (key,)), v[key], c)
                        break
                    continue
                if fname in ("__schema", "__type"):
                    continue
                fd = self.s.fields_of(c)[fname]
                if not self.value(v[key], fd.type, fields, path + (key,)):
                    ok = False
                    last = self.why
                    break
            if ok:
                return True
        self.why = last or "%r: no possible runtime type" % (list(path),)
        return False


def run_one(seed, preset=None, tier="quick", want_case=False):
    tape = Tape(seed, preset)
    cfgt = tape.sub("cfg")
    ft = tape.sub("fault")
    case = gen_case(tape, doc_knobs={"max_ops": 2})
    cfg = pick_engine_cfg(cfgt)
    sched = pick_scheduler(cfgt)
    rx = RefExec(case.schema, case.doc, tape, "data")
    plan = rx.run(case.op_name, case.variables)
    r = base_result(tape)
    r["case_digest"] = case.digest()
    if plan.refused or not plan.positions:
        r["digest"] = run_digest("trivial")
        return r
    # choose corrupted positions
    positions = [p for p in plan.positions]
    n = ft.weighted([(4, 1), (2, 2), (2, 3), (1, max(1, len(positions) // 2)), (1, len(positions))])
    chosen = {}
    for _ in range(n):
        path, ty, what, is_res = positions[ft.draw(len(positions))]
        chosen[path] = (ty, what, is_res, adversarial(ft))
    # runtime-type corruption: what a (type-level or field-level) type resolver answers
    type_override = {}
    abstract_pos = [(p_, ty_) for p_, ty_, what_, _ in positions
                    if case.schema.kind_of(named(ty_)) in ("INTERFACE", "UNION") and (ty_[0] == "N" or (ty_[0] == "NN" and ty_[1][0] == "N"))]
    if abstract_pos and ft.chance(35):
        class StrSubName(str):
            pass
        objs = [o.name for o in case.schema.objects()]
        for _ in range(ft.rint(1, 2)):
            p_, ty_ = abstract_pos[ft.draw(len(abstract_pos))]
            pool = [None, 5, "", "Nope", [], {"a": 1}, object, b"T0", True, 1.5, ("T0",), StrSubName(ft.choose(objs)), ft.choose(objs),
                    named(ty_), "Int", "__Type", ft.choose(objs).lower()]
            type_override[p_] = pool[ft.draw(len(pool))]
    override = {}
    tainted = {}
    for p_, g_ in type_override.items():
        tainted[p_] = (dict((a, b) for a, b, _, _ in positions)[p_], "<type resolver answered %r>" % (g_,))
    for path, (ty, what, is_res, val) in chosen.items():
        tainted[path] = (ty, val)
        if what == "field" and is_res:
            override[path] = val
        elif what == "item":
            lst, i = plan.item_sites[path]
            if isinstance(lst, list) and i < len(lst):
                lst[i] = val
        else:
            obj, fd = plan.default_sites[path]
            try:
                if isinstance(obj, dict) and not (fd.impl == "attr" and fd.name in getattr(obj, "__dict__", {})):
                    obj[fd.name] = val
                elif fd.impl == "attr":
                    obj.__dict__[fd.name] = val
                else:
                    obj._keys[fd.name] = val
            except Exception:  # noqa: BLE001
                pass
    # the same container can be reached through several response positions (aliases of a
    # default-resolved field): every position that reads a corrupted slot is corrupted
    types = {p: ty for p, ty, _, _ in plan.positions}
    for path, (ty, what, is_res, val) in list(chosen.items()):
        if what == "item":
            lst, i = plan.item_sites[path]
            for p2, (l2, i2) in plan.item_sites.items():
                if l2 is lst and i2 == i and p2 not in tainted:
                    tainted[p2] = (types.get(p2, ty), val)
        elif not is_res:
            obj, fd = plan.default_sites[path]
            for p2, (o2, fd2) in plan.default_sites.items():
                if o2 is obj and fd2.name == fd.name and p2 not in tainted:
                    tainted[p2] = (types.get(p2, ty), val)
    # list containers reached through aliases: an item position below an aliased list
    for p2, (l2, i2) in plan.item_sites.items():
        if p2 not in tainted:
            for path, (ty, what, is_res, val) in chosen.items():
                if what == "item" and plan.item_sites[path][0] is l2 and plan.item_sites[path][1] == i2:
                    tainted[p2] = (types.get(p2, ty), val)
    # several corruptions may hit ONE slot (two aliases of a default-resolved field, the same list
    # item through two aliases): what the engine reads is the last value written
    for p2 in list(tainted):
        if p2 in type_override:
            continue
        if p2 in plan.item_sites and not (p2 in chosen and chosen[p2][1] == "field" and chosen[p2][2]):
            lst2, i2 = plan.item_sites[p2]
            if isinstance(lst2, list) and i2 < len(lst2):
                tainted[p2] = (tainted[p2][0], lst2[i2])
        elif p2 in plan.default_sites:
            obj2, fd2 = plan.default_sites[p2]
            try:
                if isinstance(obj2, dict) and not (fd2.impl == "attr" and fd2.name in getattr(obj2, "__dict__", {})):
                    final = obj2[fd2.name]
                else:
                    final = obj2.__dict__[fd2.name] if fd2.impl == "attr" else obj2._keys[fd2.name]
                tainted[p2] = (tainted[p2][0], final)
            except Exception:  # noqa: BLE001
                pass
    name = "%s_%d" % (ID, seed)
    try:
        engine = cook_engine(case.schema, name, cfg, sdl=case.sdl)
        out = execute_once(engine, case.text, case.op_name, case.variables, plan, tape.sub("sched"),
                           sched[0], sched[1], sched[2], root_value=plan.root_value, override=override, type_override=type_override)
    finally:
        forget(name)
    viol = []
    reached = 0
    if out.exc is not None:
        viol.append(exc_violation(out))
    else:
        viol.extend(check_envelope(out.resp, case.text))
        data = out.resp.get("data")
        errs = [tuple(e["path"]) for e in (out.resp.get("errors") or []) if isinstance(e, dict) and isinstance(e.get("path"), list)]
        anc = set()
        for p in tainted:
            for i in range(len(p)):
                anc.add(p[:i])

        def explained(path):
            return any(e[: len(path)] == path for e in errs)

        cf = Conform(case.schema, rx)

        def slot_is_null(path):
            """The value the engine actually reads at a default-resolved / item position is None (after all corruptions)."""
            try:
                if path in plan.default_sites:
                    o_, fd_ = plan.default_sites[path]
                    if isinstance(o_, dict) and not (fd_.impl == "attr" and fd_.name in getattr(o_, "__dict__", {})):
                        return o_.get(fd_.name) is None
                    return (o_.__dict__.get(fd_.name) if fd_.impl == "attr" else o_._keys.get(fd_.name)) is None
                if path in plan.item_sites:
                    l_, i_ = plan.item_sites[path]
                    return isinstance(l_, list) and i_ < len(l_) and l_[i_] is None
            except Exception:  # noqa: BLE001
                return False
            return False

        def walk(actual, expected, path):
            nonlocal reached
            if path in tainted:
                reached += 1
                ty, val = tainted[path]
                nodes = plan.field_nodes.get(_strip(path), [])
                if not cf.value(actual, ty if not is_nn(ty) else ty, nodes, path) and not (actual is None):
                    viol.append(V("nonconforming_data", "corrupted position %r (declared %s, resolver supplied %r): %s" % (
                        list(path), ty, val, cf.why), kind="value"))
                elif actual is None and isinstance(val, str) and val.startswith("<type resolver answered") and (
                        expected is None or slot_is_null(path)):
                    pass  # the value is null anyway (also: nulled through another alias of the same slot): the type resolver is not consulted
                elif actual is None and val is not None and not explained(path):
                    viol.append(V("unexplained_null", "position %r is null, the resolver supplied %r, and no error has a path at or "
                                  "below it" % (list(path), val)))
                return
            if path in anc:
                if expected is None and actual is not None:
                    # the corruption replaced a value whose failure nulled this position in the
                    # reference (e.g. a scalar that serialised to null): only conformance is checked
                    ty0 = types.get(path)
                    if ty0 is not None and not cf.value(actual, ty0, plan.field_nodes.get(_strip(path), []), path):
                        viol.append(V("nonconforming_data", "position %r above a corrupted position: %s" % (list(path), cf.why), kind="value"))
                    return
                if actual is None and expected is not None:
                    if not explained(path):
                        viol.append(V("unexplained_null", "position %r is null (reference: non-null) and no error has a path at or below it" % (list(path),)))
                    return
                if isinstance(expected, dict) and isinstance(actual, dict):
                    if list(actual.keys()) != list(expected.keys()):
                        viol.append(V("nonconforming_data", "%r: keys %r != selected keys %r" % (list(path), list(actual.keys()), list(expected.keys())), kind="keys"))
                        return
                    for k in expected:
                        walk(actual[k], expected[k], path + (k,))
                    return
                if isinstance(expected, list) and isinstance(actual, list):
                    if len(actual) != len(expected):
                        viol.append(V("nonconforming_data", "%r: list length %d != %d" % (list(path), len(actual), len(expected)), kind="length"))
                        return
                    for i, (a, e) in enumerate(zip(actual, expected)):
                        walk(a, e, path + (i,))
                    return
            if not same(actual, expected):
                viol.append(V("untouched_part_changed", "part not under a corrupted position differs from the reference: %s" % (
                    first_diff(actual, expected, path)), kind="untouched"))

        walk(data, plan.data, ())
        # whole-response conformance for non-null data (root type)
        if data is not None and not viol:
            root = {"query": case.schema.query, "mutation": case.schema.mutation, "subscription": case.schema.subscription}[plan.op.op]
            from simv.model.document import Field
            pseudo = Field("<root>", None, [], [], plan.op.sels)
            from simv.model.schema import N
            if not cf.value(data, N(root), [pseudo], ()):
                viol.append(V("nonconforming_data", "response data does not conform: %s" % cf.why, kind="whole"))
        if out.tasks_alive or out.parked_left:
            viol.append(V("work_left_behind", "%d tasks alive, %d gates parked when execute returned" % (out.tasks_alive, out.parked_left)))
    r = base_result(tape, out, viol)
    r["digest"] = run_digest(out.trace, out.events, out.resp, repr(out.exc))
    r["case_digest"] = run_digest(case.digest(), sorted((repr(p), repr(v[3])[:40]) for p, v in chosen.items()))
    r["nontrivial"] = bool(reached and not viol)
    r["sched_kinds"] = {sched[0] + ("+eager" if sched[2].endswith("+eager") else ""): 1}
    kinds = {}
    for p, (ty, what, is_res, val) in chosen.items():
        k = "adversarial_" + type(val).__name__
        kinds[k] = kinds.get(k, 0) + 1
    r["faults"] = kinds
    r["metrics"] = {"corrupted_positions": len(chosen), "corrupted_positions_reached": reached,
                    "errors_reported": len(out.resp.get("errors") or []) if out.resp else 0}
    r["probes"] = {"corrupt_resolver_result": sum(1 for v in chosen.values() if v[1] == "field" and v[2]),
                   "corrupt_list_item": sum(1 for v in chosen.values() if v[1] == "item"),
                   "corrupt_default_resolved": sum(1 for v in chosen.values() if v[1] == "field" and not v[2]),
                   "data_null_entirely": int(out.resp is not None and out.resp.get("data") is None),
                   "corrupt_type_resolver_answer": len(type_override)}
    if viol:
        from simv.model.document import doc_to_json
        r["doc_model"] = doc_to_json(case.doc)
    if want_case or viol:
        c = case.render()
        c["engine_config"] = cfg
        c["corrupted"] = {repr(list(p)): "%s <- %r" % (v[0], v[3]) for p, v in chosen.items()}
        c["type_resolver_answers"] = {repr(list(p)): repr(g) for p, g in type_override.items()}
        c["response"] = repr(out.resp)[:3000]
        c["reference_data_without_corruption"] = repr(plan.data)[:2000]
        r["case"] = c
        r["trace"] = trace_tail(out)
    return r
