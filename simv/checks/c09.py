"""C09 -- mutation root fields run serially, in document order (event-log ordering under every
schedule of the nested resolvers, with failures placed on nullable and non-null root fields)."""
from simv.checks.common import COMMON_ASSUMPTIONS, run_single, strip_private
from simv.model.exec import enumerate_fault_sites
from simv.oracle import V

ID = "C09"
LEVEL = "exploration"
QUICK_RUNS = 4000
CHUNK = 25
RULE = ("seed -> schema with a Mutation root, mutation document with 2-5 root fields (aliases, fragments at the root, nested "
        "selections with lists), resolver data, optional faults on root-field subtrees, engine config, scheduler. Oracle over the "
        "recorded event log: every start/finish event of root field i's subtree precedes the first event of root field i+1; plus "
        "the C01/C02 refinement oracle (response keys in collection order, failing nullable root field does not stop the next "
        "ones, failing non-null root nulls data). Non-trivial = mutation executed with >= 2 root fields that have events and "
        ">= 1 nested resolver; distinct = request digest.")
ASSUMPTIONS = COMMON_ASSUMPTIONS


def faults_fn(case, tape, plan):
    t = tape.sub("fault")
    if plan.refused or not t.chance(50):
        return None
    sites = enumerate_fault_sites(plan)
    if not sites:
        return None
    out = {}
    # bias towards root fields (the property speaks about failing root fields)
    roots = [s for s in sites if len(s[0]) == 1]
    for _ in range(t.weighted([(3, 1), (1, 2)])):
        pool = roots if (roots and t.chance(60)) else sites
        p, k = pool[t.draw(len(pool))]
        out[p] = k
    return out


def order_check(case, plan, out):
    if plan.refused or plan.op is None or plan.op.op != "mutation":
        return []
    roots = [p[0] for p in plan.field_nodes if len(p) == 1]
    spans = {}
    for ev in out.events:
        if ev[1] in ("start", "finish"):
            path = ev[3]
            k = path[0]
            lo, hi = spans.get(k, (ev[0], ev[0]))
            spans[k] = (min(lo, ev[0]), max(hi, ev[0]))
    vs = []
    seen = [k for k in roots if k in spans]
    for a, b in zip(seen, seen[1:]):
        if spans[a][1] > spans[b][0]:
            vs.append(V("root_fields_overlap", "root field %r (events %d..%d) had not completed when root field %r started (event %d)" % (
                a, spans[a][0], spans[a][1], b, spans[b][0])))
    out.c09_roots = len(seen)
    return vs


def doc_post(doc, tape):
    """Sometimes other operations surround the mutation (which is then selected by operation_name)."""
    from simv.model.document import Field, Operation
    t = tape.sub("doc_post")
    if t.chance(35):
        doc.defs.insert(0, Operation("query", "LeadingQuery", [], [Field("__typename")]))
    if t.chance(20):
        doc.defs.append(Operation("query", "TrailingQuery", [], [Field("__typename", "tn")]))
    for d in doc.defs:
        if d.kind == "operation" and d.op == "mutation" and not d.name and len(doc.operations()) > 1:
            d.name = "TheMutation"


def pick_op(case, tape):
    muts = [o for o in case.doc.operations() if o.op == "mutation"]
    if muts:
        op = muts[tape.draw("vars", len(muts))]
        case.op = op
        case.op_name = op.name if (len(case.doc.operations()) > 1 or op.name) else None
        from simv.gen.document import gen_variables
        case.variables = gen_variables(case.schema, tape, op, stream="vars_mut")


def via_subscribe(engine, case, plan, tape, out0):
    """The same mutation handed to `subscribe()`.  Whatever the engine does with it (refuse, raise, or answer it),
    IF it executes the mutation its root fields run serially like anywhere else."""
    import asyncio
    import copy
    from simv.actors import ReqCtx, Runtime
    from simv.harness import Out
    from simv.simloop import SimDeadlock, SimLoop, SimStepCap, run_sim
    if plan.refused or plan.op is None or plan.op.op != "mutation" or not tape.sub("viasub").chance(30):
        return []
    loop = SimLoop(tape.sub("viasub_sched"), "random", 30, "gate")
    rt = Runtime(0, loop, plan)
    rt.engine_cfg = getattr(engine, "_simv_cfg", None) or {}
    loop.default_rt = rt
    got = []

    async def main():
        try:
            async for r in engine.subscribe(case.text, operation_name=case.op_name, context=ReqCtx(rt),
                                            variables=copy.deepcopy(case.variables), initial_value=plan.root_value):
                got.append(r)
        except Exception as e:  # noqa: BLE001 -- refusing by raising is the pristine behaviour
            got.append(("raised", type(e).__name__))

    try:
        run_sim(loop, main())
    except (SimDeadlock, SimStepCap) as e:
        return [V("no_termination", "the mutation handed to subscribe() did not terminate: %r" % (e,))]
    o = Out()
    o.events = loop.events
    vs = order_check(case, plan, o)
    for v in vs:
        v["detail"] = "[mutation executed through subscribe()] " + v["detail"]
    out0.c09_via_subscribe = 1 + int(any(ev[1] == "start" for ev in loop.events))
    return vs


def post_checks(engine, case, plan, tape, out0):
    return dfs_orders(engine, case, plan, tape, out0) + via_subscribe(engine, case, plan, tape, out0)


def dfs_orders(engine, case, plan, tape, out0):
    """Small mutations: enumerate ALL completion orders of the suspended resolvers (DFS over the
    scheduler's release decisions) and check the serial-order invariant and the response on each."""
    from simv.harness import execute_once
    from simv.checks.c15 import same_response  # data strictly, errors as a multiset (their order is free)
    from simv.simloop import Script, next_script
    n_calls = len([c for c in plan.calls if c.args is not None])
    if plan.refused or not (2 <= n_calls <= 5):
        return []
    vs, prefix, n = [], [], 0
    while True:
        script = Script(prefix)
        out = execute_once(engine, case.text, case.op_name, case.variables, plan, script, "script", 0, "gate", root_value=plan.root_value)
        n += 1
        if out.exc is not None:
            vs.append(V("no_termination", "order %r: %r" % ([c for c, _ in script.log], out.exc)))
            break
        for v in order_check(case, plan, out):
            v["detail"] = "[completion order %r] %s" % ([c for c, _ in script.log], v["detail"])
            vs.append(v)
        if not same_response(out.resp, out0.resp):
            vs.append(V("order_dependent_response", "completion order %r changes the response" % ([c for c, _ in script.log],)))
        nxt = next_script(script.log)
        if nxt is None or n >= 130 or vs:
            out0.c09_dfs = (n, nxt is None)
            break
        prefix = nxt
    return vs


def run_one(seed, preset=None, tier="quick", want_case=False):
    def schema_knobs(t):
        return {"mutation_pct": 100, "default_impl_pct": 15, "rename_roots_pct": 30, "root_default_impl": t.chance(30),
                "lag_pct": t.choose([0, 0, 20])}

    def doc_knobs(t):
        return {"op_kinds": ("mutation",), "max_ops": t.choose([1, 1, 2]), "max_depth": 3, "max_sel": t.choose([5, 5, 8])}

    r = run_single(ID, seed, preset, want_case, schema_knobs=schema_knobs, doc_knobs=doc_knobs,
                   faults_fn=faults_fn, extra_check=order_check, doc_post=doc_post, pick_op=pick_op, post_engine=post_checks)
    if r.get("early"):
        return strip_private(r)
    plan, out = r["_plan"], r["_out"]
    is_mut = plan.op is not None and plan.op.op == "mutation"
    nested = any(len(c[0]) > 1 for c in out.rt.calls)
    r["nontrivial"] = bool(is_mut and not plan.refused and getattr(out, "c09_roots", 0) >= 2 and nested and not r["viol"])
    dfs = getattr(out, "c09_dfs", None)
    if dfs:
        r["metrics"]["dfs_executions"] = dfs[0]
        r["metrics"]["dfs_requests_exhausted" if dfs[1] else "dfs_requests_truncated"] = 1
        r["evals"] = 1 + dfs[0]
    root_fail = [e for e in plan.errors if len(e.path) == 1]
    r["probes"].update({
        "mutation_executed": int(is_mut and not plan.refused),
        "root_field_failed_nullable": int(any(e.nulls == e.path for e in root_fail)),
        "root_field_failed_nonnull_data_null": int(any(e.nulls == ("<root>",) for e in root_fail)),
        "roots_ge_3": int(getattr(out, "c09_roots", 0) >= 3),
        "mutation_handed_to_subscribe": int(getattr(out, "c09_via_subscribe", 0) >= 1),
    })
    return strip_private(r)
