"""C01 -- request results equal the GraphQL execution algorithm's result (refinement against the
sequential reference executor, fault-free, under seeded schedules and concurrency settings)."""
from simv.checks.common import COMMON_ASSUMPTIONS, run_single, strip_private

ID = "C01"
LEVEL = "exploration"
QUICK_RUNS = 4000
CHUNK = 20
RULE = ("seed -> (schema, valid document, variables, resolver data tree, engine concurrency config, scheduler); the real "
        "engine's response and resolver-call history are compared with the sequential reference executor (data incl. key "
        "order and Python types, one call per response key and parent with coerced args, parent identity, caller's context). "
        "Non-trivial = executed (not refused), no expected error, >= 3 resolver calls, >= 1 fragment/alias/merged key and "
        ">= 1 list or abstract position; distinct = distinct (SDL, query, variables) digest.")
ASSUMPTIONS = COMMON_ASSUMPTIONS


def run_one(seed, preset=None, tier="quick", want_case=False):
    # swarm: per-run generator knobs (root fields served by the default resolver from initial_value,
    # resolver-heavy or default-resolver-heavy schemas, deeper or wider documents)
    def schema_knobs(t):
        return {"root_default_impl": t.chance(30), "default_impl_pct": t.choose([30, 10, 60]), "max_objects": t.choose([5, 3, 6]),
                "mutation_pct": 35, "lag_pct": t.choose([0, 0, 0, 20])}

    def doc_knobs(t):
        return {"max_depth": t.choose([4, 3, 5]), "max_sel": t.choose([5, 3, 6]), "frag_pct": t.choose([18, 30, 8]),
                "var_pct": t.choose([25, 45, 10, 0]), "skip_pct": t.choose([12, 25]), "directive_vars": t.chance(70),
                "skip_null_pct": t.choose([0, 30])}

    from simv.gen.document import mirror_post
    r = run_single(ID, seed, preset, want_case, schema_knobs=schema_knobs, doc_knobs=doc_knobs, doc_post=mirror_post)
    if r.get("early"):
        return strip_private(r)
    plan, case, out = r["_plan"], r["_case"], r["_out"]
    p = r["probes"]
    structural = any(p.get(k) for k in ("repeated_key", "merged_field_nodes", "fragments_after_use", "fragments_before_operations",
                                        "alias_equals_other_field_name", "var_in_fragment", "skip_on_spread")) or "..." in case.text or ":" in case.text
    shape = any(p.get(k) for k in ("list_len>=2", "type_levels_disagree", "typename_key", "typename_attr", "typename_class")) or bool(plan.abstract_levels)
    r["nontrivial"] = bool(not plan.refused and not plan.errors and len(out.rt.calls) >= 3 and structural and shape and not r["viol"])
    r["probes"]["root_served_by_default_resolver"] = int(any(f.impl != "resolver" for f in case.schema.t(case.schema.query).fields.values()))
    for k, v in plan.abstract_levels.items():
        r["probes"]["abstract_level_" + k] = v
    return strip_private(r)
