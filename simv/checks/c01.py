"""C01 -- request results equal the GraphQL execution algorithm's result (refinement against the
sequential reference executor, fault-free, under seeded schedules and concurrency settings)."""
from simv.checks.common import COMMON_ASSUMPTIONS, run_single, strip_private

ID = "C01"
LEVEL = "exploration"
QUICK_RUNS = 4000
CHUNK = 20
RULE = ("seed -> (schema, valid document, variables, resolver data tree, engine concurrency config, scheduler); the real "
        "engine's response and resolver-call history are compared with the sequential reference executor (data incl. key "
        "order and Python types, one call per response key and parent with coerced args, parent identity, caller's context). "
        "Non-trivial = executed (not refused), no expected error, >= 3 resolver calls, >= 1 fragment/alias/merged key and "
        ">= 1 list or abstract position; distinct = distinct (SDL, query, variables) digest.")
ASSUMPTIONS = COMMON_ASSUMPTIONS


def run_one(seed, preset=None, tier="quick", want_case=False):
    r = run_single(ID, seed, preset, want_case)
    plan, case, out = r["_plan"], r["_case"], r["_out"]
    p = r["probes"]
    structural = any(p.get(k) for k in ("repeated_key", "merged_field_nodes", "fragments_after_use", "fragments_before_operations",
                                        "alias_equals_other_field_name", "var_in_fragment", "skip_on_spread")) or "..." in case.text or ":" in case.text
    shape = any(p.get(k) for k in ("list_len>=2", "type_levels_disagree", "typename_key", "typename_attr", "typename_class")) or bool(plan.abstract_levels)
    r["nontrivial"] = bool(not plan.refused and not plan.errors and len(out.rt.calls) >= 3 and structural and shape and not r["viol"])
    for k, v in plan.abstract_levels.items():
        r["probes"]["abstract_level_" + k] = v
    return strip_private(r)
