"""C04 -- variable values are coerced exactly as the specification prescribes.

One run = an operation with 1-4 variable definitions over the schema's input types (scalars incl.
custom, enums, input objects incl. recursive and defaulted fields, list / non-null nestings to
depth 3) with optional defaults, and a JSON variables object obtained by mutating a valid
assignment (wrong kind at a random depth, missing, explicit null, extra variables, single value
for a list, unknown / missing input fields, borderline numbers).  Each variable is echoed through
an argument; the oracle is the reference CoerceVariableValues plus the recorded event log."""
import copy

from simv.actors import forget
from simv.checks.common import COMMON_ASSUMPTIONS, base_result, exc_violation, pick_engine_cfg, trace_tail
from simv.gen.schema import gen_schema, gen_wrappers
from simv.gen.values import gen_json, gen_literal
from simv.harness import Case, cook_engine, execute_once, make_plan, pick_scheduler, run_digest
from simv.model.document import Document, Field, Operation, print_document
from simv.model.schema import ABSENT, ArgDef, FieldDef, N, is_nn, print_sdl
from simv.oracle import V, check_against_plan, check_envelope, same
from simv.tape import Tape

ID = "C04"
LEVEL = "exploration"
QUICK_RUNS = 6000
CHUNK = 40
RULE = ("seed -> schema (input types as C01) + 1-4 variable definitions (type drawn over every input type x wrappers to depth 3, "
        "optional valid default) each echoed through an argument of its own field; variables JSON = valid assignment mutated by "
        "{wrong-kind value at a random depth from a borderline pool, missing, null, extra variable, single value for list, unknown "
        "or missing input field}. Oracle: reference CoerceVariableValues; rejected => data null, every offending variable named "
        "by an error ($name in message or location inside its definition), no resolver start in the event log; accepted => "
        "resolvers observe exactly the coerced values in args and info.variable_values (absent stays absent, null kept, lists "
        "wrapped, input-object defaults filled). Spec-ambiguous inputs (integral float for Int/ID) accept either verdict. "
        "Non-trivial = at least one variable provided with a non-null value; distinct = (definitions, variables) digest.")
ASSUMPTIONS = COMMON_ASSUMPTIONS + [
    "integral floats for Int / ID variables are left to the implementation (either verdict accepted)",
]

WRONG = [True, False, 0, 5, -1, 1.5, 3.0, 2 ** 31, -(2 ** 31) - 1, 2 ** 53, 10 ** 400, "str", "5", "1.5", "", "true", "A", "x:y",
         [], [1], [[1]], {}, {"a": 1}, None, float("nan"), float("inf"), -0.0, 1e308, "RED", 1000, [None], [[]]]


def mutate(v, t, depth=0):
    """Replace one node of a JSON value (chosen at a random depth) by a value from the borderline pool."""
    if isinstance(v, list) and v and t.chance(60):
        i = t.draw(len(v))
        out = list(v)
        out[i] = mutate(v[i], t, depth + 1)
        return out
    if isinstance(v, dict) and t.chance(70):
        mode = t.draw(4)
        out = dict(v)
        if mode == 0 or not v:
            out["unknownField"] = 1
            return out
        k = list(v)[t.draw(len(v))]
        if mode == 1:
            del out[k]
            return out
        out[k] = mutate(v[k], t, depth + 1)
        return out
    return copy.deepcopy(WRONG[t.draw(len(WRONG))])


def run_one(seed, preset=None, tier="quick", want_case=False):
    tape = Tape(seed, preset)
    cfgt = tape.sub("cfg")
    vt = tape.sub("vars")
    schema = gen_schema(tape, {"max_objects": 2, "max_interfaces": 0, "max_unions": 0, "max_fields": 2, "mutation_pct": 0})
    q = schema.t("Query")
    input_types = ["Int", "Float", "String", "Boolean", "ID"] + [n for n, td in schema.types.items()
                                                                  if td.kind in ("ENUM", "INPUT_OBJECT") or (td.kind == "SCALAR" and td.custom)]
    nvars = vt.rint(1, 4)
    vardefs, sels = [], []
    invalid_defaults = []
    unknown_field_defaults = []  # defaults that are object literals with an undefined field
    for i in range(nvars):
        base = vt.choose(input_types)
        ty = gen_wrappers(vt, base, 3)
        fname = "echo%d" % i
        fd = FieldDef(fname, N("Int"), {"a": ArgDef("a", ty)})
        fd.impl = "resolver"
        fd.ac = vt.choose([None, "gather", "sync"])
        q.fields[fname] = fd
        default = ABSENT
        if vt.chance(30):
            default = gen_literal(schema, ty, vt, 10)
        elif vt.chance(12):
            # a default that is NOT acceptable for the type ("a used default is invalid" => refused)
            from simv.gen.rewrites import _wrong_literal
            default = ("null",) if (is_nn(ty) and vt.chance(50)) else _wrong_literal(schema, ty)
            invalid_defaults.append("v%d" % i)
            if default != ("null",) and schema.kind_of(base) == "INPUT_OBJECT":
                unknown_field_defaults.append("v%d" % i)
        vardefs.append(("v%d" % i, ty, default))
        sels.append(Field(fname, None, [("a", ("var", "v%d" % i))]))
    novars = tape.sub("novars").chance(10)
    if novars:
        # an operation that declares NO variable at all (literals instead), executed with variables: they are all extra
        nt = tape.sub("novars")
        for (vn, ty_, _), sel in zip(vardefs, sels):
            sel.args = [("a", gen_literal(schema, ty_, nt, 10))]
        vardefs, invalid_defaults, unknown_field_defaults = [], [], []
    op = Operation("query", "Q", vardefs, sels)
    ops = [op]
    if vt.chance(30) and not novars:
        # a second operation declaring the SAME variable names with other types / defaults: the
        # definitions of the selected operation are the ones that count
        vardefs2, sels2 = [], []
        for i in range(nvars):
            base = vt.choose(input_types)
            ty2 = gen_wrappers(vt, base, 3)
            fname = "other%d" % i
            fd = FieldDef(fname, N("Int"), {"a": ArgDef("a", ty2)})
            fd.impl = "resolver"
            q.fields[fname] = fd
            vardefs2.append(("v%d" % i, ty2, gen_literal(schema, ty2, vt, 10) if vt.chance(40) else ABSENT))
            sels2.append(Field(fname, None, [("a", ("var", "v%d" % i))]))
        op2 = Operation("query", "Q2", vardefs2, sels2)
        ops = [op, op2] if vt.chance(50) else [op2, op]
    case = Case()
    case.schema, case.doc = schema, Document(ops)
    case.sdl = print_sdl(schema)
    case.layout = vt.draw(3)
    case.text = print_document(case.doc, case.layout)
    case.op, case.op_name = op, ("Q" if len(ops) > 1 else None)
    raw = {}
    mutations = {}
    for name, ty, default in vardefs:
        mode = vt.weighted([(4, "valid"), (4, "mutated"), (2, "absent"), (1, "null"), (1, "wrong")])
        if name in invalid_defaults and vt.chance(70):
            mode = "absent"
        if mode == "absent":
            continue
        if mode == "null":
            raw[name] = None
        elif mode == "wrong":
            raw[name] = copy.deepcopy(WRONG[vt.draw(len(WRONG))])
        else:
            v = gen_json(schema, ty, vt, 10)
            if mode == "mutated":
                v = mutate(v, vt)
            raw[name] = v
        mutations[mode] = mutations.get(mode, 0) + 1
    if vt.chance(15) or novars:
        raw["notDeclared"] = {"anything": [1, "x"]}
        mutations["extra_variable"] = 1
    if novars:
        raw["v0"] = 5
        mutations["operation_without_variable_definitions"] = 1
    if tape.sub("varkind").chance(15):
        # the same JSON object carried by a dict subclass that defines __missing__ (defaultdict / Counter style)
        import collections
        raw = collections.defaultdict(int, raw)
        mutations["variables_in_a_defaultdict"] = 1
    case.variables = raw
    cfg = pick_engine_cfg(cfgt)
    sched = pick_scheduler(cfgt)
    plan = make_plan(case, tape)
    name = "%s_%d" % (ID, seed)
    try:
        engine = cook_engine(schema, name, cfg, sdl=case.sdl)
        out = execute_once(engine, case.text, case.op_name, raw, plan, tape.sub("sched"), sched[0], sched[1], sched[2],
                           root_value=plan.root_value)
    finally:
        forget(name)
    viol = []
    if out.exc is not None:
        viol.append(exc_violation(out))
    else:
        viol.extend(check_envelope(out.resp, case.text))
        viol.extend(check_against_plan(case, plan, out.resp, out.rt, out.events))
        if not plan.refused:
            for seen in out.rt.seen_vars:
                if not same(seen, plan.variables, ordered=False):
                    viol.append(V("wrong_variable_values", "info.variable_values is %r, the coerced variables are %r (raw %r)" % (
                        seen, plan.variables, raw)))
                    break
    for v in viol:
        v["sig"]["verdict"] = "reject" if plan.refused else "accept"
        if v["clause"] == "offending_variable_not_reported" and v["sig"].get("var") in unknown_field_defaults:
            v["sig"] = {"cause": "default_value_with_undefined_input_field"}
        elif v["clause"] in ("not_refused", "ran_before_refusal") and plan.var_bad and all(n in unknown_field_defaults and n not in raw for n in plan.var_bad):
            v["sig"] = {"cause": "default_value_with_undefined_input_field"}
    r = base_result(tape, out, viol)
    r["digest"] = run_digest(out.trace, out.events, out.resp, repr(out.exc))
    r["case_digest"] = run_digest(case.text, raw)
    r["nontrivial"] = bool(not viol and any(v is not None for v in raw.values()))
    r["sched_kinds"] = {sched[0] + ("+eager" if sched[2].endswith("+eager") else ""): 1}
    r["faults"] = {"variables_" + k: n for k, n in mutations.items()}
    r["metrics"] = {"variables": nvars}
    r["probes"] = {"verdict_reject": int(plan.refused and not plan.var_ambiguous), "verdict_accept": int(not plan.refused),
                   "verdict_ambiguous": int(bool(plan.var_ambiguous)),
                   "several_offending_variables": int(len(plan.var_bad) >= 2),
                   "default_used": int(any(d is not ABSENT and n not in raw for n, _, d in vardefs)),
                   "input_object_variable": int(any(isinstance(v, dict) for v in raw.values())),
                   "invalid_default_used": int(any(n not in raw for n in invalid_defaults)),
                   "same_variable_names_in_two_operations": int(len(ops) > 1)}
    if want_case or viol:
        c = case.render()
        c["engine_config"] = cfg
        c["reference_verdict"] = {"bad": plan.var_bad, "ambiguous": plan.var_ambiguous, "coerced": repr(plan.variables)}
        c["response"] = repr(out.resp)[:2000]
        c["resolver_args"] = [repr((list(p), a)) for p, _, _, a, _, _ in out.rt.calls]
        r["case"] = c
        r["trace"] = trace_tail(out)
    return r
