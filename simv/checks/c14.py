"""C14 -- subscriptions answer every source event once, in order.

One run = one engine, 1-3 subscriptions consumed by separate client tasks (plus ordinary queries)
interleaved in one SimLoop; sources are async generators yielding a seeded finite sequence of
payloads (well-formed, provoking nested field failures, None) and pausing at scheduler points.
Oracle: #responses == #events; response k == execute(same text, initial_value=event k) on a twin
engine (and == the reference executor); a failing event does not end the stream; the stream ends
with the source; refused requests yield one errors-only response without starting the source."""
import asyncio
import copy

from simv.actors import consume_args, ReqCtx, Runtime, canon, forget
from simv.checks.c15 import describe_diff, same_response
from simv.checks.common import COMMON_ASSUMPTIONS, base_result, pick_engine_cfg, trace_tail
from simv.gen.document import gen_document, gen_variables
from simv.gen.schema import gen_schema
from simv.harness import take_response, Out, cook_engine, corrupt_text, execute_once, pick_scheduler, run_digest
from simv.model.document import print_document
from simv.model.exec import RefExec, enumerate_fault_sites
from simv.model.schema import print_sdl
from simv.oracle import V, check_against_plan, check_envelope, same
from simv.simloop import SimDeadlock, SimLoop, SimStepCap, run_sim
from simv.tape import Tape

ID = "C14"
LEVEL = "exploration"
QUICK_RUNS = 1500
CHUNK = 10
RULE = ("seed -> schema with a Subscription root, 1-3 subscription requests (aliases, fragments, arguments via literals and "
        "variables; some refused: syntax / validation / variable errors) + 0-2 ordinary queries, each subscription with a finite "
        "event sequence of 0-4 payloads (well-formed objects, payloads whose nested resolvers fail incl. non-null failures, None), "
        "consumed concurrently under a seeded scheduler with sources pausing between events. Oracle: one response per event in "
        "source order; response k == execute(text, initial_value=payload k) on a twin engine and == reference executor; stream "
        "continues after a failing event and ends when the source ends; source receives the coerced arguments; refused request "
        "=> exactly one errors-only response and no source_start event. evaluations = events answered; non-trivial = a "
        "subscription with >= 2 events consumed while another client was in flight; distinct = digest of requests + event plans.")
ASSUMPTIONS = COMMON_ASSUMPTIONS + ["event payloads and resolver results are fixed before the run (pure actors)"]


class Sub:
    def __init__(self, rid):
        self.rid = rid
        self.text = None
        self.op_name = None
        self.variables = None
        self.events = []  # [(payload, plan)]
        self.refused = None
        self.arg_failure = False
        self.root_excluded = False
        self.responses = []
        self.exc = None
        self.rt = None
        self.doc = None
        self.text0 = None
        self.initial = None  # initial_value passed to subscribe (the events, not it, are the root values)


def run_one(seed, preset=None, tier="quick", want_case=False):
    tape = Tape(seed, preset)
    cfgt = tape.sub("cfg")
    ot = tape.sub("ops")
    schema = gen_schema(tape, {"max_objects": 4, "subscription_pct": 100, "default_impl_pct": 15, "mutation_pct": 0,
                               "subscription_default_impl_pct": 30, "rename_roots_pct": 25, "lag_pct": 15 if seed % 3 == 0 else 0})
    sdl = print_sdl(schema)
    nsubs = ot.rint(1, 3)
    subs = []
    for i in range(nsubs):
        s = Sub(i)
        if i > 0 and ot.chance(30):
            # the same document text consumed by two subscriptions at once (other variables)
            doc, text0 = subs[0].doc, subs[0].text0
        else:
            doc = gen_document(schema, tape, {"op_kinds": ("subscription",), "max_ops": 1, "max_depth": 3, "max_sel": 4, "max_frags": 2},
                               stream="doc%d" % i)
            if ot.chance(30):
                # other operations around the subscription: it is then selected by operation_name
                from simv.model.document import Field, Operation
                doc.operations()[0].name = doc.operations()[0].name or "TheSub"
                doc.defs.insert(0, Operation("query", "LeadingQuery", [], [Field("__typename")]))
            xt = tape.sub("rootskip")
            if xt.chance(7):
                # every selection of the root field is excluded by @skip / @include: nothing is left to subscribe to
                from simv.model.schema import DirUse
                sub_op = next(o for o in doc.operations() if o.op == "subscription")
                lit = ("skip", True) if xt.chance(50) else ("include", False)

                def exclude(sels):
                    for sel in sels:
                        if sel.kind == "field":
                            sel.directives = list(sel.directives) + [DirUse(lit[0], [("if", ("bool", lit[1]))])]
                        elif sel.kind == "inline":
                            exclude(sel.sels)
                exclude(sub_op.sels)
                doc.root_excluded = True
            text0 = print_document(doc, tape.draw("doc%d" % i, 3))
        s.doc = doc
        s.text = s.text0 = text0
        op = next(o for o in doc.operations() if o.op == "subscription")
        s.op_name = op.name if (ot.chance(50) or len(doc.operations()) > 1) else None
        s.variables = gen_variables(schema, tape, op, stream="vars%d" % i, null_pct=0)
        if ot.chance(15):
            s.text, s.refused = corrupt_text(s.text, ot)
        elif op.vardefs and ot.chance(10):
            s.variables = dict(s.variables)
            s.variables[op.vardefs[0][0]] = {"not": ["coercible", object]} if False else [[{"x": 1}]]
            probe = RefExec(schema, doc, Tape(seed, preset), "probe%d" % i).run(s.op_name, s.variables)
            s.refused = "variables" if probe.refused and not probe.var_ambiguous else None
            if s.refused is None:
                s.variables = gen_variables(schema, Tape(seed, preset), op, stream="vars%d" % i, null_pct=0)
        elif op.vardefs and ot.chance(35):
            # variables with explicit nulls: a null reaching a non-null argument of the subscription's
            # root field is a field error raised while the source stream is created
            nv = gen_variables(schema, Tape(seed, preset), op, stream="varsn%d" % i, null_pct=70)
            probe = RefExec(schema, doc, Tape(seed, preset), "proben%d" % i).run(s.op_name, nv)
            if not probe.refused:
                s.variables = nv
        s.root_excluded = bool(getattr(doc, "root_excluded", False))
        if not s.refused and not s.root_excluded:
            # whatever the variables, the root field's arguments may be impossible to coerce (e.g. a null default nested
            # in a list of non-null items): then no source stream can be created
            probe = RefExec(schema, doc, Tape(seed, preset), "probea%d" % i).run(s.op_name, s.variables)
            s.arg_failure = (not probe.refused) and any(len(e.path) == 1 and str(e.kind).startswith("argument:") for e in probe.errors)
        if ot.chance(40):
            s.initial = {"_decoy_initial_value": i}
        if not s.refused and not s.arg_failure and not s.root_excluded:
            for k in range(ot.rint(0, 4 if tier == "quick" else 9)):
                none_root = ot.chance(10)
                stream = "data%d_%d" % (i, k)
                base = RefExec(schema, doc, tape, stream).run(s.op_name, s.variables, None, none_root)
                plan = base
                if not base.refused and ot.chance(40):
                    sites = enumerate_fault_sites(base)
                    if sites:
                        faults = {}
                        for _ in range(ot.weighted([(3, 1), (1, 2)])):
                            p, kind = sites[ot.draw(len(sites))]
                            faults[p] = kind
                        t2 = Tape(seed, preset)
                        ex2 = RefExec(schema, doc, t2, stream, faults, base_over=base.over)
                        plan = ex2.run(s.op_name, s.variables, None, none_root)
                        for k2, v2 in t2.used.items():
                            if k2.startswith("data") and len(v2) > len(tape.used.get(k2, ())):
                                tape.used[k2] = v2
                s.events.append((plan.root_value, plan))
        subs.append(s)
    # ordinary queries on the same engine
    queries = []
    for j in range(ot.rint(0, 2)):
        qdoc = gen_document(schema, tape, {"op_kinds": ("query",), "max_ops": 1, "max_depth": 3, "max_sel": 4, "max_frags": 2}, stream="docq%d" % j)
        qtext = print_document(qdoc, 0)
        qop = qdoc.operations()[0]
        qvars = gen_variables(schema, tape, qop, stream="varsq%d" % j)
        qplan = RefExec(schema, qdoc, tape, "dataq%d" % j).run(None, qvars)
        queries.append((100 + j, qtext, qvars, qplan))

    cfg = pick_engine_cfg(cfgt)
    sch = pick_scheduler(cfgt)
    name, twin = "%s_%d" % (ID, seed), "%s_%d_twin" % (ID, seed)
    viol = []
    out = Out()
    overlap = 0
    try:
        engine = cook_engine(schema, name, cfg, sdl=sdl)
        twin_engine = cook_engine(schema, twin, cfg, sdl=sdl)
        loop = SimLoop(tape.sub("sched"), sch[0], sch[1], sch[2])
        qresults = {}

        async def consume(s):
            s.rt = Runtime(s.rid, loop, None)
            s.rt.event_plans = s.events
            ctx = ReqCtx(s.rt)
            await loop.gate(("client", s.rid))
            try:
                kw = {"initial_value": s.initial} if s.initial is not None else {}
                async for resp in engine.subscribe(s.text, operation_name=s.op_name, context=ctx, variables=copy.deepcopy(s.variables), **kw):
                    loop.ev("response", s.rid, len(s.responses))
                    consume_args(s.rt)  # the event has been answered: its resolvers' (and the source's) argument objects are the application's to reuse
                    s.responses.append(take_response(resp))
                    await loop.point(("consumer", s.rid, len(s.responses)))
            except Exception as e:  # noqa: BLE001
                s.exc = e

        async def query(rid, text, variables, plan):
            rt = Runtime(rid, loop, plan)
            await loop.gate(("client", rid))
            try:
                resp = await engine.execute(text, context=ReqCtx(rt), variables=copy.deepcopy(variables), initial_value=plan.root_value)
                qresults[rid] = (resp, rt, None)
            except Exception as e:  # noqa: BLE001
                qresults[rid] = (None, rt, e)

        async def main():
            tasks = [loop.create_task(consume(s)) for s in subs] + [loop.create_task(query(*q)) for q in queries]
            await asyncio.gather(*tasks)
            me = asyncio.current_task()
            out.tasks_alive = len([t for t in asyncio.all_tasks(loop) if t is not me and not t.done()])
            out.parked_left = len([g for g in loop.parked if not g.fut.done()])

        try:
            run_sim(loop, main())
        except (SimDeadlock, SimStepCap) as e:
            out.exc = e
            viol.append(V("no_termination", "the batch of subscriptions did not terminate: %r" % (e,)))
        out.events, out.trace = loop.events, loop.trace
        out.releases, out.multi_choice, out.max_parked, out.vsec, out.order = loop.releases, loop.multi_choice, loop.max_parked, loop.vsec, loop.order_digest()
        if out.exc is None:
            if out.tasks_alive or out.parked_left:
                viol.append(V("work_left_behind", "%d tasks alive, %d gates parked after all streams ended" % (out.tasks_alive, out.parked_left)))
            for s in subs:
                lab = "subscription %d" % s.rid
                if s.exc is not None:
                    viol.append(V("subscribe_raised", "%s: iterating subscribe raised %r" % (lab, s.exc), exc=type(s.exc).__name__))
                    continue
                for resp in s.responses:
                    viol.extend(check_envelope(resp, s.text))
                started = [e for e in out.events if e[1] == "source_start" and e[2] == s.rid]
                if s.root_excluded and not s.refused:
                    r0 = s.responses[0] if s.responses else None
                    if not (len(s.responses) == 1 and isinstance(r0, dict) and r0.get("errors") and not r0.get("data")):
                        viol.append(V("excluded_root_field_response", "%s: the root field is excluded by @skip / @include; yielded %d responses: %r" % (
                            lab, len(s.responses), s.responses[:2])))
                    if started:
                        viol.append(V("source_started_without_root_field", "%s: source started although the root field is excluded" % lab))
                    continue
                if s.arg_failure:
                    # the root field's arguments cannot be coerced: no source stream can be created; the
                    # failure is answered (one response carrying the field error), never raised
                    r0 = s.responses[0] if s.responses else None
                    ok = (len(s.responses) == 1 and isinstance(r0, dict) and r0.get("errors")
                          and (r0.get("data") is None or all(v is None for v in r0["data"].values())))
                    if not ok:
                        viol.append(V("root_argument_failure_response", "%s: the root field's argument coercion fails; yielded %d responses: %r" % (
                            lab, len(s.responses), s.responses[:2])))
                    if started:
                        viol.append(V("source_started_without_arguments", "%s: source started although its arguments cannot be coerced" % lab))
                    continue
                if s.refused:
                    if len(s.responses) != 1 or s.responses[0].get("data") is not None or not s.responses[0].get("errors"):
                        viol.append(V("refused_subscription_response", "%s (refused: %s) yielded %d responses: %r" % (
                            lab, s.refused, len(s.responses), s.responses[:2]), why=s.refused.split(":")[0]))
                    if started:
                        viol.append(V("source_started_for_refused_request", "%s (refused: %s) started its source" % (lab, s.refused)))
                    continue
                if len(started) != 1:
                    viol.append(V("source_start_count", "%s: source started %d times" % (lab, len(started))))
                if len(s.responses) != len(s.events):
                    viol.append(V("response_count", "%s: %d events produced, %d responses yielded" % (lab, len(s.events), len(s.responses))))
                    continue
                # order: event k is followed by response k before event k+1
                seq = [(e[1], e[3]) for e in out.events if e[1] in ("event", "response") and e[2] == s.rid]
                want = []
                for k in range(len(s.events)):
                    want += [("event", k), ("response", k)]
                if seq != want:
                    viol.append(V("event_response_order", "%s: event/response order %r" % (lab, seq)))
                # source arguments
                if s.events:
                    p0 = s.events[0][1]
                    exp_args = next((c.args for c in p0.calls if len(c.path) == 1), None)
                    if exp_args is not None and s.rt.source_args and not same(s.rt.source_args[0], exp_args, ordered=False):
                        viol.append(V("source_arguments", "%s: source received %r, coerced arguments are %r" % (lab, s.rt.source_args[0], exp_args)))
                for k, ((payload, plan), resp) in enumerate(zip(s.events, s.responses)):
                    s.rt.calls = s.rt.event_calls[k] if k < len(s.rt.event_calls) else []
                    s.rt.seen_roots = s.rt.event_roots[k] if k < len(s.rt.event_roots) else []
                    for v in check_against_plan(None, plan, resp, s.rt, []):
                        v["detail"] = "%s event %d: %s" % (lab, k, v["detail"])
                        viol.append(v)
                    tw = execute_once(twin_engine, s.text, s.op_name, s.variables, plan, tape.sub("twin%d_%d" % (s.rid, k)),
                                      "fifo", 0, "gate", root_value=payload)
                    if tw.exc is not None:
                        viol.append(V("twin_execute_failed", "%s event %d: execute(initial_value=event) raised %r" % (lab, k, tw.exc)))
                    elif not same_response(resp, tw.resp):
                        viol.append(V("differs_from_execute_with_initial_value", "%s event %d: subscribe yielded a response that differs from "
                                      "execute(same text, initial_value=event): %s" % (lab, k, describe_diff(resp, tw.resp))))
                    if len(viol) > 5:
                        break
            for rid, text, variables, plan in queries:
                resp, rt, exc = qresults.get(rid, (None, None, "missing"))
                if exc is not None:
                    viol.append(V("execute_raised", "query %d raised %r" % (rid, exc), exc=type(exc).__name__ if not isinstance(exc, str) else exc))
                    continue
                viol.extend(check_envelope(resp, text))
                for v in check_against_plan(None, plan, resp, rt, []):
                    v["detail"] = "query %d alongside subscriptions: %s" % (rid, v["detail"])
                    viol.append(v)
            # overlap measure
            live = set()
            for e in out.events:
                if e[1] == "event":
                    live.add(e[2])
                    overlap = max(overlap, len(live))
                elif e[1] == "source_end":
                    live.discard(e[2])
    finally:
        forget(name)
        forget(twin)
    r = base_result(tape, out, viol)
    r["digest"] = run_digest(out.trace, out.events, [s.responses for s in subs], repr(out.exc))
    r["case_digest"] = run_digest(sdl, [(s.text, s.op_name, s.variables, len(s.events)) for s in subs])
    r["evals"] = max(1, sum(len(s.responses) for s in subs))
    concurrent_clients = len(subs) + len(queries)
    r["nontrivial"] = bool(not viol and any(len(s.events) >= 2 for s in subs) and concurrent_clients >= 2)
    faults = {}
    for s in subs:
        for payload, plan in s.events:
            for k, n in plan.faults_fired.items():
                faults[k] = faults.get(k, 0) + n
            if payload is None:
                faults["none_payload"] = faults.get("none_payload", 0) + 1
    r["faults"] = faults
    r["sched_kinds"] = {sch[0] + ("+eager" if sch[2].endswith("+eager") else ""): 1}
    r["metrics"] = {"subscriptions": len(subs), "events": sum(len(s.events) for s in subs), "queries_alongside": len(queries),
                    "max_streams_active_together": overlap}
    r["probes"] = {"refused_subscription": int(any(s.refused for s in subs)), "empty_stream": int(any(not s.refused and not s.events for s in subs)),
                   "event_with_errors": int(any(plan.errors for s in subs for _, plan in s.events)),
                   "event_nulls_whole_data": int(any(plan.data is None and not plan.refused for s in subs for _, plan in s.events)),
                   "two_streams_interleaved": int(overlap >= 2),
                   "root_field_argument_coercion_fails": int(any(s.arg_failure for s in subs)),
                   "root_field_excluded_by_skip_or_include": int(any(s.root_excluded and not s.refused for s in subs)),
                   "subscription_root_repeated": int(any(getattr(s.doc, "probes", {}).get("subscription_root_repeated") for s in subs))}
    if want_case or viol:
        r["case"] = {"sdl": sdl, "engine_config": cfg, "scheduler": sch,
                     "subscriptions": [{"query": s.text, "operation_name": s.op_name, "variables": s.variables, "refused": s.refused,
                                        "events": [repr(p)[:200] for p, _ in s.events],
                                        "responses": [repr(x)[:600] for x in s.responses]} for s in subs],
                     "queries": [q[1] for q in queries]}
        r["trace"] = trace_tail(out)
    return r
