"""C17 -- engines registered under different schema names are independent.

One run = 2-4 bundles (SDL + resolvers + type resolvers + scalars + subscriptions + a directive)
with overlapping type and field names; the ops stream interleaves the registrations of all
bundles and the starts of their cooks arbitrarily (a bundle's registrations precede its own cook),
cooks overlap (part of each bundle arrives through a synthesized module whose async bake pauses at
a scheduler gate).  Probe requests (incl. introspection) on each co-resident engine must equal
those of the same bundle built *alone in a fresh process* (a forked child starting from a clean
registry)."""
import asyncio
import os
import pickle
import sys
import types

from simv.actors import ReqCtx, Runtime, bundle_steps, canon, forget
from simv.checks.c15 import describe_diff, same_response
from simv.checks.common import COMMON_ASSUMPTIONS, base_result, trace_tail
from simv.gen.document import gen_document, gen_variables
from simv.gen.schema import gen_schema
from simv.harness import Out, execute_once, pick_scheduler, run_digest
from simv.model.document import print_document
from simv.model.exec import RefExec
from simv.model.schema import print_sdl
from simv.oracle import V, check_envelope
from simv.simloop import SimDeadlock, SimLoop, SimStepCap, run_sim
from simv.tape import Tape

from tartiflette import Directive, create_engine
from tartiflette.schema.registry import SchemaRegistry

ID = "C17"
LEVEL = "exploration"
QUICK_RUNS = 400
CHUNK = 4
RULE = ("seed -> 2-4 bundles generated independently over the same small name pools (types T0.., fields a..y: heavy overlap), "
        "each with resolvers, type resolvers, custom scalars, subscription sources and a logging directive; an ops sequence "
        "interleaving every single registration of every bundle with the cook starts (own registrations before own cook), a "
        "random subset of each bundle's registrations moved into a synthesized module whose async bake pauses at a gate so cooks "
        "overlap; seeded scheduler. Oracle: for every bundle, probe requests (2 generated documents + an introspection query) and "
        "their actor-event summaries on the co-resident engine == those of the bundle built alone in a forked fresh process. "
        "evaluations = probe requests compared; non-trivial = >= 2 bundles sharing >= 3 'Type.field' coordinates with cooks "
        "overlapping or registrations interleaved; distinct = digest of bundles + ops.")
ASSUMPTIONS = COMMON_ASSUMPTIONS + [
    "'fresh process' = os.fork() of the worker with SchemaRegistry cleaned before anything of the run was registered",
]

INTROSPECTION = ("{ __schema { queryType { name } mutationType { name } subscriptionType { name } "
                 "types { name kind fields { name args { name } type { name kind ofType { name kind } } } enumValues { name } "
                 "possibleTypes { name } inputFields { name } } directives { name locations args { name } } } }")


class Bundle:
    def __init__(self, i):
        self.i = i
        self.schema = None
        self.sdl = None
        self.probes = []  # (text, op_name, variables, plan)
        self.name = None
        self.mod_name = None
        self.cfg = None
        self.extend_builtin = False
        self.extend_query = False
        self.twin_of = None
        self.override_id = False


def make_mark_directive(name, bundle):
    class Mark:
        async def on_field_execution(self, da, nxt, parent, args, ctx, info):
            rt = getattr(ctx, "rt", None)
            if rt is not None:
                rt.loop.ev("hook", rt.rid, "mark", bundle, getattr(rt, "bundle", None), da.get("b"))
            return await nxt(parent, args, ctx, info)

        async def on_pre_output_coercion(self, da, nxt, value, ctx, info):
            # applied to a BUILT-IN scalar through `extend scalar Boolean @mark` in some bundles
            rt = getattr(ctx, "rt", None)
            if rt is not None:
                rt.loop.ev("hook", rt.rid, "mark-scalar", bundle, getattr(rt, "bundle", None), da.get("b"))
            return await nxt(value, ctx, info)

    return lambda: Directive("mark", schema_name=name)(Mark())


class BundleID:
    """A bundle's own implementation of the built-in ID scalar."""

    def __init__(self, bundle):
        self.bundle = bundle

    def coerce_output(self, value):
        if isinstance(value, bool) or not isinstance(value, (str, int)):
            raise TypeError("ID cannot represent %r" % (value,))
        return "%s#b%d" % (value, self.bundle)

    def coerce_input(self, value):
        if isinstance(value, bool) or not isinstance(value, (str, int)):
            raise TypeError("ID cannot represent %r" % (value,))
        return str(value)

    def parse_literal(self, ast):
        from tartiflette.constants import UNDEFINED_VALUE
        from tartiflette.language.ast import IntValueNode, StringValueNode
        return str(ast.value) if isinstance(ast, (StringValueNode, IntValueNode)) else UNDEFINED_VALUE


def gen_bundles(tape, seed):
    t = tape.sub("ops")
    nb = t.rint(2, 4)
    out = []
    for i in range(nb):
        b = Bundle(i)
        tw = tape.sub("twin")
        if i >= 1 and tw.chance(35):
            # the very same SDL text cooked under another schema name, with its own actors: one schema
            # exposed twice (byte-identical text, so anything keyed on the text is shared if the engine shares it)
            src = out[tw.draw(i)]
            b.schema, b.sdl, b.extend_builtin, b.override_id, b.twin_of = src.schema, src.sdl, src.extend_builtin, src.override_id, src.i
        else:
            b.twin_of = None
            b.schema = gen_schema(tape, {"max_objects": 3, "max_fields": 4, "subscription_pct": 35, "default_impl_pct": 15}, stream="schema%d" % i)
        sdl = print_sdl(b.schema)
        # a directive with the same name in every bundle, applied to the first Query field
        first = next(iter(b.schema.t("Query").fields))
        eb, oi = t.chance(30), t.chance(30)
        if b.twin_of is None:
            b.extend_builtin, b.override_id = eb, oi
        sdl = "directive @mark(b: Int = %d) on FIELD_DEFINITION | SCALAR | OBJECT\n" % i + sdl.replace(
            "type Query {\n  %s" % first, "type Query {\n  %s" % first, 1)
        lines = sdl.split("\n")
        for li, ln in enumerate(lines):
            if ln.startswith("type Query"):
                lines[li + 1] = lines[li + 1] + " @mark"
                break
        if b.twin_of is None:
            b.sdl = "\n".join(lines)
            if b.extend_builtin:
                b.sdl += "\nextend scalar Boolean @mark(b: %d)\n" % (100 + i)
            if tw.chance(35):
                # a type extension that carries a directive and a field of its own
                b.sdl += "\nextend type Query @mark(b: %d) { extraField%d: Int @mark }\n" % (200 + i, i)
                b.extend_query = True
            if b.override_id:
                b.sdl += "\nscalar ID\n"
        b.name = "C17_%d_b%d" % (seed, i)
        b.mod_name = "simv_c17_mod_%d_%d" % (seed, i)
        b.cfg = dict(lc=t.choose([None, True, False]), pc=t.choose([None, True, False]))
        for j in range(2):
            doc = gen_document(b.schema, tape, {"max_depth": 3, "max_sel": 4, "max_frags": 2, "max_ops": 1, "op_kinds": ("query", "mutation")},
                               stream="doc%d_%d" % (i, j))
            text = print_document(doc, 0)
            op = doc.operations()[0]
            variables = gen_variables(b.schema, tape, op, stream="vars%d_%d" % (i, j))
            plan = RefExec(b.schema, doc, tape, "data%d_%d" % (i, j)).run(None, variables)
            b.probes.append((text, None, variables, plan))
        b.probes.append((INTROSPECTION, None, None, None))
        out.append(b)
    return out


def all_steps(b):
    steps = bundle_steps(b.schema, b.name, False, bundle=b.i)
    steps.append(("directive", "mark", make_mark_directive(b.name, b.i)))
    if b.override_id:
        from tartiflette import Scalar
        steps.append(("scalar", "ID", lambda: Scalar("ID", schema_name=b.name)(BundleID(b.i))))
    return steps


def event_summary(events):
    return [(e[1],) + tuple(canon(x) for x in e[3:]) for e in events if e[1] in ("start", "type_resolve", "hook", "foreign_actor", "unplanned")]


def run_probes(engine, b, tape, prefix):
    res = []
    for k, (text, op_name, variables, plan) in enumerate(b.probes):
        out = execute_once(engine, text, op_name, variables, plan, tape.sub("%s_%d_%d" % (prefix, b.i, k)), "fifo", 0, "gate",
                           root_value=plan.root_value if plan is not None else None)
        out.rt.bundle = b.i
        res.append((out.resp, repr(out.exc) if out.exc is not None else None, event_summary(out.events)))
    return res


def _execute_probe(engine, b, k, tape, prefix):
    """execute_once with the runtime's bundle id set before the run (actors check it)."""
    import copy as _copy
    from simv.harness import Out as _Out
    text, op_name, variables, plan = b.probes[k]
    loop = SimLoop(tape.sub("%s_%d_%d" % (prefix, b.i, k)), "fifo", 0, "gate")
    rt = Runtime(k, loop, plan)
    rt.bundle = b.i
    loop.default_rt = rt
    out = _Out()

    async def main():
        return await engine.execute(text, operation_name=op_name, context=ReqCtx(rt), variables=_copy.deepcopy(variables),
                                    initial_value=plan.root_value if plan is not None else None)

    try:
        out.resp = run_sim(loop, main())
    except Exception as e:  # noqa: BLE001
        out.exc = e
    return out.resp, (repr(out.exc) if out.exc is not None else None), event_summary(loop.events)


def solo_in_child(b, seed, preset):
    """Build bundle b alone in a forked child with a clean registry; return its probe results."""
    r, w = os.pipe()
    pid = os.fork()
    if pid == 0:
        try:
            os.close(r)
            SchemaRegistry.clean()
            tape = Tape(seed, preset)
            loop = SimLoop(tape.sub("solo_cook%d" % b.i), "fifo", 0, "none")

            async def build():
                for _, _, fn in all_steps(b):
                    fn()
                return await create_engine(b.sdl, schema_name=b.name, coerce_list_concurrently=b.cfg["lc"],
                                           coerce_parent_concurrently=b.cfg["pc"])

            engine = run_sim(loop, build())
            res = [_execute_probe(engine, b, k, tape, "probe") for k in range(len(b.probes))]
            payload = pickle.dumps(("ok", res))
        except BaseException as e:  # noqa: BLE001
            import traceback
            payload = pickle.dumps(("error", traceback.format_exc()))
        with os.fdopen(w, "wb") as f:
            f.write(payload)
        os._exit(0)
    os.close(w)
    with os.fdopen(r, "rb") as f:
        data = f.read()
    os.waitpid(pid, 0)
    return pickle.loads(data)


def run_one(seed, preset=None, tier="quick", want_case=False):
    tape = Tape(seed, preset)
    cfgt = tape.sub("cfg")
    ot = tape.sub("ops")
    store = getattr(SchemaRegistry, "_schemas", None)
    assert not (isinstance(store, dict) and [k for k in store if k.startswith("C17_")]), "registry not clean at run start"
    bundles = gen_bundles(tape, seed)
    # solo references first: the children fork from the state *before* anything of this run is registered
    solos = {}
    harness_problem = None
    for b in bundles:
        status, res = solo_in_child(b, seed, preset)
        if status != "ok":
            harness_problem = "solo build of bundle %d failed in the child:\n%s" % (b.i, res)
            break
        solos[b.i] = res
    if harness_problem:
        raise RuntimeError(harness_problem)
    # ops: every registration of every bundle + cook starts, interleaved
    ops = []
    in_module = {}
    for b in bundles:
        steps = all_steps(b)
        mod_steps, direct = [], []
        for s in steps:
            (mod_steps if ot.chance(30) else direct).append(s)
        in_module[b.i] = mod_steps
        for s in direct:
            ops.append(("reg", b.i, s))
    ops = ot.shuffle(ops)
    # insert each cook start at a random position after the bundle's last direct registration
    for b in bundles:
        last = max([k for k, o in enumerate(ops) if o[0] == "reg" and o[1] == b.i], default=-1)
        pos = last + 1 + ot.draw(len(ops) - last)
        ops.insert(pos, ("cook", b.i, None))
    # cooks that fail or are abandoned while the others register and cook (fault: a broken / cancelled
    # engine start-up next to healthy ones): they must not disturb anybody else
    sab_t = tape.sub("sabotage")
    saboteurs = []
    for k in range(sab_t.weighted([(5, 0), (3, 1), (1, 2)])):
        mode = sab_t.choose(["bake_raises", "cancelled_in_bake", "invalid_sdl"])
        saboteurs.append((k, mode, bundles[sab_t.draw(len(bundles))]))
        ops.insert(sab_t.draw(len(ops) + 1), ("sabotage", k, None))
    touched = []
    if sab_t.chance(6):
        # many other schema names get registrations while these bundles are between registration and cook
        ops.insert(sab_t.draw(len(ops) + 1), ("touch", 0, None))
    sch = pick_scheduler(cfgt)
    loop = SimLoop(tape.sub("sched"), sch[0], sch[1], "gate")
    engines = {}
    out = Out()
    viol = []
    overlap = [0]

    # one module serving every bundle (its bake registers what belongs to the schema name it is given), handed to the
    # engines as a name or as {"name": ..., "config": ...} with the same config for all
    shared_module = sab_t.chance(35)
    one_after_another = sab_t.chance(30)
    by_name = {b.name: b for b in bundles}
    if shared_module:
        for b in bundles:
            b.mod_name = "simv_c17_shared_%d" % seed

    def make_module(b0):
        m = types.ModuleType(b0.mod_name)

        async def bake(schema_name, config):
            b = by_name[schema_name] if shared_module else b0
            loop.ev("bake_enter", b.i)
            cooking.add(b.i)
            overlap[0] = max(overlap[0], len(cooking))
            await loop.gate(("bake", b.i))
            for _, _, fn in in_module[b.i]:
                fn()
            await loop.gate(("bake2", b.i))
            loop.ev("bake_exit", b.i)
            return ""

        m.bake = bake
        sys.modules[b0.mod_name] = m

    cooking = set()

    async def cook(b):
        try:
            mods = [b.mod_name] if not (shared_module and b.i % 2) else [{"name": b.mod_name, "config": {"shared": True}}]
            engines[b.i] = await create_engine(b.sdl, schema_name=b.name, modules=mods,
                                               coerce_list_concurrently=b.cfg["lc"], coerce_parent_concurrently=b.cfg["pc"])
        finally:
            cooking.discard(b.i)

    sab_results = {}

    async def sabotage(k, mode, like):
        name = "C17_%d_bad%d" % (seed, k)
        mod_name = "simv_c17_badmod_%d_%d" % (seed, k)
        m = types.ModuleType(mod_name)

        async def bake(schema_name, config):
            loop.ev("bad_bake_enter", k)
            await loop.gate(("bad_bake", k))
            if mode == "bake_raises":
                raise RuntimeError("module of the broken engine fails to bake")
            await loop.gate(("bad_bake2", k))
            return ""

        m.bake = bake
        sys.modules[mod_name] = m
        sdl = like.sdl if mode != "invalid_sdl" else like.sdl + "\ntype Broken implements NoSuchInterface { x: NoSuchType }\n"
        try:
            await create_engine(sdl, schema_name=name, modules=[mod_name])
            sab_results[k] = "cooked"
        except asyncio.CancelledError:
            sab_results[k] = "cancelled"
            raise
        except Exception as e:  # noqa: BLE001
            sab_results[k] = "failed:" + type(e).__name__
        finally:
            sys.modules.pop(mod_name, None)
            forget(name)

    async def main():
        tasks = []
        sab_tasks = []
        for kind, bi, step in ops:
            if kind == "touch":
                from tartiflette import Resolver as _Resolver

                async def _noop(parent, args, ctx, info):
                    return None
                for k in range(300):
                    nm = "C17_%d_touch%d" % (seed, k)
                    touched.append(nm)
                    _Resolver("Query.touched", schema_name=nm)(_noop)
                loop.ev("touched_names", 300)
                continue
            if kind == "sabotage":
                k, mode, like = saboteurs[bi]
                loop.ev("sabotage_start", k, mode)
                st = loop.create_task(sabotage(k, mode, like))
                sab_tasks.append(st)
                if mode == "cancelled_in_bake":
                    async def kill(st=st, k=k):
                        await loop.gate(("bad_killer", k))
                        st.cancel()
                    sab_tasks.append(loop.create_task(kill()))
                continue
            b = bundles[bi]
            if kind == "reg":
                step[2]()
                loop.ev("register", bi, step[0], step[1])
            else:
                loop.ev("cook_start", bi)
                tasks.append(loop.create_task(cook(b)))
                if one_after_another:
                    # this engine is completely cooked before anything else happens (the other schedule shape: the
                    # default lets all cooks overlap)
                    await asyncio.gather(tasks[-1], return_exceptions=True)
                elif ot.chance(50):
                    await asyncio.sleep(0)
        res = await asyncio.gather(*tasks, return_exceptions=True)
        await asyncio.gather(*sab_tasks, return_exceptions=True)
        return res

    try:
        for b in bundles:
            make_module(b)
        try:
            cook_res = run_sim(loop, main())
            for b, cr in zip([bundles[o[1]] for o in ops if o[0] == "cook"], cook_res):
                if isinstance(cr, BaseException):
                    viol.append(V("cook_failed_with_coresidents", "bundle %d cooks alone but failed next to other schemas: %r" % (b.i, cr),
                                  exc=type(cr).__name__))
        except (SimDeadlock, SimStepCap) as e:
            out.exc = e
            viol.append(V("no_termination", "cooking did not terminate: %r" % (e,)))
        out.events, out.trace = loop.events, loop.trace
        out.releases, out.multi_choice, out.max_parked, out.vsec, out.order = loop.releases, loop.multi_choice, loop.max_parked, loop.vsec, loop.order_digest()
        n_cmp = 0
        probe_results = {}
        if not viol:
            for b in bundles:
                got = [_execute_probe(engines[b.i], b, k, tape, "probe") for k in range(len(b.probes))]
                probe_results[b.i] = got
                for k, ((resp, exc, evs), (sresp, sexc, sevs)) in enumerate(zip(got, solos[b.i])):
                    n_cmp += 1
                    lab = "bundle %d probe %d" % (b.i, k)
                    if exc or sexc:
                        if exc != sexc:
                            viol.append(V("probe_raised", "%s: co-resident %r vs alone %r" % (lab, exc, sexc)))
                        continue
                    viol.extend(check_envelope(resp, b.probes[k][0]))
                    if not same_response(resp, sresp):
                        viol.append(V("differs_from_engine_built_alone", "%s: response differs from the same bundle built alone in a fresh "
                                      "process: %s" % (lab, describe_diff(resp, sresp)), introspection=(k == len(b.probes) - 1)))
                    elif evs != sevs:
                        viol.append(V("actor_events_differ", "%s: actors invoked %r, alone %r" % (lab, evs[:6], sevs[:6])))
                    if any(e[0] == "foreign_actor" for e in evs):
                        viol.append(V("foreign_actor_invoked", "%s: an actor registered for another schema name ran: %r" % (
                            lab, [e for e in evs if e[0] == "foreign_actor"][:2])))
    finally:
        for nm in touched:
            forget(nm)
        for b in bundles:
            forget(b.name)
            sys.modules.pop(b.mod_name, None)
    coords = []
    for b in bundles:
        coords.append({"%s.%s" % (td.name, f) for td in b.schema.types.values() if td.kind == "OBJECT" for f in td.fields})
    shared = max((len(coords[i] & coords[j]) for i in range(len(coords)) for j in range(i + 1, len(coords))), default=0)
    regs = [o[1] for o in ops if o[0] == "reg"]
    switches = sum(1 for a, b2 in zip(regs, regs[1:]) if a != b2)
    r = base_result(tape, out, viol)
    r["digest"] = run_digest(out.trace, out.events, [(k, [x[0] for x in v]) for k, v in sorted(probe_results.items())] if not viol else "v", repr(out.exc))
    r["case_digest"] = run_digest([b.sdl for b in bundles], [(o[0], o[1], o[2][1] if o[2] else None) for o in ops])
    r["evals"] = max(1, n_cmp)
    r["nontrivial"] = bool(not viol and shared >= 3 and (overlap[0] >= 2 or switches >= 3))
    r["sched_kinds"] = {sch[0] + ("+eager" if sch[2].endswith("+eager") else ""): 1}
    r["metrics"] = {"bundles": len(bundles), "registration_steps": len(regs), "registration_bundle_switches": switches,
                    "shared_coordinates_max": shared, "max_cooks_overlapping": overlap[0], "probes_compared": n_cmp}
    r["faults"] = {}
    for k, (_, mode, _b) in enumerate(saboteurs):
        key = "coresident_cook_%s_%s" % (mode, sab_results.get(k, "not_started").split(":")[0])
        r["faults"][key] = r["faults"].get(key, 0) + 1
    r["probes"] = {"cooks_overlapped": int(overlap[0] >= 2), "registrations_through_module": int(any(in_module[b.i] for b in bundles)),
                   "four_bundles": int(len(bundles) == 4), "subscription_bundle": int(any(b.schema.subscription for b in bundles)),
                   "bundle_extends_builtin_scalar": int(any(b.extend_builtin for b in bundles)),
                   "broken_or_cancelled_cook_alongside": int(bool(saboteurs)),
                   "one_module_shared_by_all_bundles": int(shared_module),
                   "engines_cooked_one_after_another": int(one_after_another),
                   "300_other_schema_names_registered_meanwhile": int(bool(touched)),
                   "same_sdl_text_under_two_names": int(any(b.twin_of is not None for b in bundles)),
                   "twin_sdl_with_directive_on_extension": int(any(b.twin_of is not None and ("extend type Query @mark" in b.sdl or b.extend_builtin) for b in bundles)),
                   "bundle_overrides_builtin_scalar": int(any(b.override_id for b in bundles)),
                   "override_next_to_plain_bundle": int(any(b.override_id for b in bundles) and any(not b.override_id for b in bundles))}
    if want_case or viol:
        r["case"] = {"bundles": [{"name": b.name, "sdl": b.sdl, "probes": [p[0] for p in b.probes[:2]]} for b in bundles],
                     "ops": [(o[0], o[1], o[2][0] + ":" + o[2][1] if o[2] else None) for o in ops],
                     "through_module": {b.i: [s[0] + ":" + s[1] for s in in_module[b.i]] for b in bundles}}
        r["trace"] = trace_tail(out)
    return r
