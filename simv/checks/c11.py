"""C11 -- introspection describes exactly the schema that was supplied (file-system seam).

One run = a schema model with every type kind, defaults of every value kind, deprecations,
@nonIntrospectable fields, custom directive definitions, and a random subset of members moved into
`extend` definitions of every kind.  The SDL is supplied as string / one file / list of files /
directory; for the last two the definitions are split at random boundaries into 1-6 files (.sdl and
.graphql, nested directories) and the patched glob returns them in a seeded order.  Several engines
with different supply modes are cooked in one SimLoop and queried concurrently.  The normalised
introspection answers must equal the model and each other."""
import asyncio
import os
import shutil
import tempfile

from simv import boot  # noqa: F401
from simv.actors import XNum, XStr, canon, forget
from simv.checks.common import COMMON_ASSUMPTIONS, base_result, trace_tail
from simv.gen.schema import gen_schema
from simv.gen.schema_intro import (
    BUILTIN_DIRECTIVES, BUILTIN_SCALARS, chunks_of, decorate, dep, expected_type, split_extensions, type_ref,
)
from simv.gqlstub import Parser
from simv.harness import Out, pick_scheduler, run_digest
from simv.model.schema import ABSENT
from simv.oracle import V, check_envelope
from simv.simloop import SimDeadlock, SimLoop, SimStepCap, run_sim
from simv.tape import Tape

import tartiflette.schema.registry as registry_mod
from tartiflette import Directive, Scalar, create_engine

ID = "C11"
LEVEL = "exploration"
QUICK_RUNS = 700
CHUNK = 6
RULE = ("seed -> schema model (objects, interfaces with several implementers, unions, enums, input objects, custom scalars, "
        "wrappers to depth 3, arguments / input fields with defaults of every value kind, descriptions, @deprecated with and "
        "without reason, @nonIntrospectable fields, 0-3 custom directive definitions with arguments and location sets, optional "
        "Mutation / Subscription roots) with a random subset of members moved into extend type / interface / union / enum / "
        "input / scalar / schema definitions; supplied as string, file, list of files and directory (definitions dealt into 1-6 "
        "files in seeded order, .sdl / .graphql, nested directories, glob order permuted: extensions may precede definitions); "
        "2-4 engines with different supply modes cooked and queried concurrently. Oracle: normalised __schema (both "
        "includeDeprecated settings), __type(name:) for every name and unknown names, __typename == model, and all supply "
        "modes agree. evaluations = engines compared; non-trivial = >= 1 extension and >= 2 supply modes incl. a multi-file one; "
        "distinct = digest of (model, split).")
ASSUMPTIONS = COMMON_ASSUMPTIONS + [
    "order of types / fields / values in introspection results is not compared (the property does not fix it)",
    "default values are compared after parsing the reported GraphQL literal",
]

TYPE_SEL = ("kind name description fields(includeDeprecated: %s) { name description args { name description type { ...TR } defaultValue } "
            "type { ...TR } isDeprecated deprecationReason } inputFields { name type { ...TR } defaultValue } interfaces { name } "
            "enumValues(includeDeprecated: %s) { name isDeprecated deprecationReason } possibleTypes { name }")
TR = ("fragment TR on __Type { kind name ofType { kind name ofType { kind name ofType { kind name ofType { kind name ofType { kind name "
      "ofType { kind name ofType { kind name } } } } } } } }")


def schema_query(incl):
    b = "null" if incl is None else ("true" if incl else "false")
    return ("query I { __typename __schema { queryType { name } mutationType { name } subscriptionType { name } types { %s } "
            "directives { name description locations args { name description type { ...TR } defaultValue } } } } %s" % (TYPE_SEL % (b, b), TR))


def type_query(names, incl):
    b = "null" if incl is None else ("true" if incl else "false")
    parts = ["t%d: __type(name: \"%s\") { %s }" % (i, n, TYPE_SEL % (b, b)) for i, n in enumerate(names)]
    return "query T { %s } %s" % (" ".join(parts), TR)


def node_to_value(n):
    k = n["kind"]
    if k == "IntValue":
        return ("int", int(n["value"]))
    if k == "FloatValue":
        return ("float", float(n["value"]))
    if k == "StringValue":
        return ("str", n["value"])
    if k == "BooleanValue":
        return ("bool", n["value"])
    if k == "NullValue":
        return ("null",)
    if k == "EnumValue":
        return ("enum", n["value"])
    if k == "ListValue":
        return ("list", [node_to_value(x) for x in n["values"]])
    if k == "ObjectValue":
        return ("obj", sorted((f["name"]["value"], node_to_value(f["value"])) for f in n["fields"]))
    raise ValueError(k)


def parse_default(text):
    if text is None:
        return ABSENT
    try:
        p = Parser(text.encode("utf-8"))
        v = node_to_value(p.value(True))
        if p.cur.kind != "EOF":
            return ("unparsable", text)
        return v
    except Exception:  # noqa: BLE001
        return ("unparsable", text)


def norm_default(v, ty=None, schema=None):
    """Normalise a default value literal for comparison.  With a type, values that denote the same
    input value are identified: 1 and 1.0 at a Float position, 4 and "4" at an ID position, a
    single value and the one-item list at a list position."""
    if v is ABSENT:
        return ABSENT
    k = v[0]
    if ty is not None:
        if ty[0] == "NN":
            return norm_default(v, ty[1], schema)
        if k == "null":
            return v
        if ty[0] == "L":
            items = v[1] if k == "list" else [v]
            return ("list", [norm_default(x, ty[1], schema) for x in items])
        name = ty[1]
        if name == "Float" and k in ("int", "float"):
            return ("float", float(v[1]))
        if name == "ID" and k == "int":
            return ("str", str(int(v[1])))
        td = schema.types.get(name) if schema is not None else None
        if td is not None and td.kind == "INPUT_OBJECT" and k == "obj":
            return ("obj", sorted((n, norm_default(x, td.fields[n].type if n in td.fields else None, schema)) for n, x in v[1]))
    if k == "float":
        return ("float", float(v[1]))
    if k == "int":
        return ("int", int(v[1]))
    if k == "list":
        return ("list", [norm_default(x) for x in v[1]])
    if k == "obj":
        return ("obj", sorted((n, norm_default(x)) for n, x in v[1]))
    return v


def ref_to_type(r):
    """Model type tuple from a normalised introspection type reference."""
    if r is None:
        return None
    if r["kind"] == "NON_NULL":
        inner = ref_to_type(r["ofType"])
        return ("NN", inner) if inner is not None else None
    if r["kind"] == "LIST":
        inner = ref_to_type(r["ofType"])
        return ("L", inner) if inner is not None else None
    return ("N", r["name"])


def norm_ref(r):
    if r is None:
        return None
    return {"kind": r.get("kind"), "name": r.get("name"), "ofType": norm_ref(r.get("ofType"))}


SCHEMA = [None]  # the model of the run being checked (for type-aware default comparison)


def norm_type(t):
    if t is None:
        return None
    out = {k: t.get(k) for k in ("kind", "name", "description")}
    out["fields"] = None if t.get("fields") is None else {
        f["name"]: {"name": f["name"], "description": f.get("description"),
                    "args": {a["name"]: {"name": a["name"], "description": a.get("description"), "type": norm_ref(a["type"]),
                                         "defaultValue": norm_default(parse_default(a.get("defaultValue")), ref_to_type(norm_ref(a["type"])), SCHEMA[0])} for a in f["args"]},
                    "type": norm_ref(f["type"]), "isDeprecated": f["isDeprecated"], "deprecationReason": f["deprecationReason"]}
        for f in t["fields"]}
    out["_n_fields"] = None if t.get("fields") is None else len(t["fields"])
    out["inputFields"] = None if t.get("inputFields") is None else {
        f["name"]: {"name": f["name"], "type": norm_ref(f["type"]), "defaultValue": norm_default(parse_default(f.get("defaultValue")), ref_to_type(norm_ref(f["type"])), SCHEMA[0])}
        for f in t["inputFields"]}
    out["interfaces"] = None if t.get("interfaces") is None else sorted(x["name"] for x in t["interfaces"])
    out["enumValues"] = None if t.get("enumValues") is None else {v["name"]: dict(v) for v in t["enumValues"]}
    out["possibleTypes"] = None if t.get("possibleTypes") is None else sorted(x["name"] for x in t["possibleTypes"])
    return out


def expected_norm(schema, td, incl):
    e = expected_type(schema, td, incl)
    if e["fields"] is not None:
        for f in e["fields"].values():
            for an_, a in f["args"].items():
                a["defaultValue"] = norm_default(a["defaultValue"], td.fields[f["name"]].args[an_].type, schema)
        e["_n_fields"] = len(e["fields"])
    else:
        e["_n_fields"] = None
    if e["inputFields"] is not None:
        for f in e["inputFields"].values():
            f["defaultValue"] = norm_default(f["defaultValue"], td.fields[f["name"]].type, schema)
    if e["kind"] == "OBJECT" and e["interfaces"] is None:
        e["interfaces"] = []
    return e


def diff_dict(a, b, path=""):
    if type(a) is not type(b):
        return "%s: %r != %r" % (path, a, b)
    if isinstance(a, dict):
        if set(a) != set(b):
            return "%s: names %r != %r" % (path, sorted(a, key=str), sorted(b, key=str))
        for k in a:
            d = diff_dict(a[k], b[k], path + "/" + str(k))
            if d:
                return d
        return None
    if isinstance(a, (list, tuple)):
        if len(a) != len(b):
            return "%s: %r != %r" % (path, a, b)
        for i, (x, y) in enumerate(zip(a, b)):
            d = diff_dict(x, y, path + "/" + str(i))
            if d:
                return d
        return None
    return None if a == b else "%s: %r != %r" % (path, a, b)


class NoopDirective:
    pass


def run_one(seed, preset=None, tier="quick", want_case=False):
    tape = Tape(seed, preset)
    cfgt = tape.sub("cfg")
    ft = tape.sub("files")
    schema = gen_schema(tape, {"max_objects": 4, "mutation_pct": 50, "subscription_pct": 25, "max_inputs": 3, "max_enums": 2})
    decorate(schema, tape)
    hidden_schema = cfgt.chance(8)
    base, exts = split_extensions(schema, tape)
    if hidden_schema:
        from simv.model.schema import DirUse
        base.schema_directives = [DirUse("nonIntrospectable")]
    chunks = chunks_of(base, exts)
    spt = tape.sub("spell")
    if spt.chance(50):
        # the same definitions written differently: other ignored tokens (commas, comments, CR / CRLF / no
        # line ends, nothing at all between punctuators), leading `|` in unions, files not ending in a newline
        from simv.gen.sdl_spelling import respell, same_tokens
        respelled = [respell(c, spt) if spt.chance(70) else c for c in chunks]
        assert all(same_tokens(a, b) for a, b in zip(chunks, respelled))
        chunks = respelled
        respelt = 1
    else:
        respelt = 0
    canonical = "\n".join(chunks)
    modes = cfgt.shuffle(["string", "file", "files", "dir"])[: cfgt.rint(2, 4)]
    # the files are written in another encoding than UTF-8 when the text allows it (the documented `sdl_file_encoding`)
    file_encoding = "utf-8"
    if tape.sub("enc").chance(30):
        try:
            canonical.encode("latin-1")
            file_encoding = "latin-1"
        except UnicodeEncodeError:
            pass
    tmp = tempfile.mkdtemp(prefix="simv_c11_")
    viol = []
    out = Out()
    names = []
    supplies = {}
    results = {}
    layout_desc = {}
    same_names = [0]
    try:
        for mi, mode in enumerate(modes):
            if mode == "string":
                supplies[mode] = "\n".join(cfgt.shuffle(chunks)) if cfgt.chance(50) else canonical
            elif mode == "file":
                p = os.path.join(tmp, "one_%d.graphql" % mi)
                with open(p, "w", encoding=file_encoding, newline="") as f:
                    f.write("\n".join(ft.shuffle(chunks)))
                supplies[mode] = p
            else:
                nfiles = ft.rint(1, 6)
                buckets = [[] for _ in range(nfiles)]
                for c in ft.shuffle(chunks):
                    buckets[ft.draw(nfiles)].append(c)
                root = os.path.join(tmp, "%s_%d" % (mode, mi))
                os.makedirs(root)
                paths = []
                for bi, b in enumerate(buckets):
                    sub = root
                    if mode == "dir" and ft.chance(40):
                        sub = os.path.join(root, "nested%d" % ft.draw(2), "deep") if ft.chance(50) else os.path.join(root, "nested%d" % ft.draw(2))
                        os.makedirs(sub, exist_ok=True)
                    ext = ".sdl" if ft.chance(50) else ".graphql"
                    p = os.path.join(sub, "part%d%s" % (bi, ext))
                    if mode == "dir" and ft.chance(45) and not os.path.exists(os.path.join(sub, "schema" + ext)):
                        # the same file name in several sub-directories is ordinary practice
                        p = os.path.join(sub, "schema" + ext)
                        same_names[0] += 1
                    with open(p, "w", encoding=file_encoding, newline="") as f:
                        f.write("\n".join(b) + (ft.choose(["\n", "", "\n# end of file, no newline"]) if respelt else "\n"))
                    paths.append(p)
                layout_desc[mode] = [os.path.relpath(p, root) for p in paths]
                supplies[mode] = ft.shuffle(paths) if mode == "files" else root
        real_glob = registry_mod.glob
        gt = tape.sub("glob")
        glob_calls = [0]

        def fake_glob(pattern, recursive=False):
            res = sorted(real_glob(pattern, recursive=recursive))
            glob_calls[0] += 1
            return gt.shuffle(res)

        sch = pick_scheduler(cfgt)
        loop = SimLoop(tape.sub("sched"), sch[0], sch[1], "mixed")
        # introspection is served by the same executor as everything else: the concurrency options are varied here too
        import locale as _locale
        default_encoding = tape.sub("engopts.enc").chance(40) and _locale.getpreferredencoding(False).lower().replace("-", "") == "utf8"
        ot_ = tape.sub("engopts")
        engine_opts = {}
        if ot_.chance(50):
            engine_opts["coerce_parent_concurrently"] = ot_.choose([False, True])
        if ot_.chance(50):
            engine_opts["coerce_list_concurrently"] = ot_.choose([False, True])
        first = next(iter(schema.types))
        # names that are NOT names of the schema although they resemble one
        unknown_names = ["NopeType", first + "\\n", first + " ", " " + first, first.lower() if first.lower() != first else first.upper(),
                         "[%s]" % first, first + "!", "", first + "\\n\\n", "@deprecated", "deprecated", first + "\\t"]
        unknown_names = [n for n in unknown_names if n not in schema.types and n not in ("Int", "String", "Query")]
        type_names = list(schema.types) + ["Int", "String", "__Type", "Query"] + unknown_names
        META_Q = ("{ __schema { __typename queryType { __typename fields(includeDeprecated: true) { __typename args { __typename type { __typename } } "
                  "type { __typename ofType { __typename } } } } directives { __typename args { __typename } } "
                  "types { __typename name enumValues(includeDeprecated: true) { __typename } inputFields { __typename } interfaces { __typename } "
                  "possibleTypes { __typename } } } }")
        # the TYPE of every argument / input field / directive argument, described in full at every wrapping depth:
        # reached this way a named type says the same things as its entry in __schema.types
        ARG_TYPES_Q = ("query A { __schema { types { name fields(includeDeprecated: true) { name args { name type { ...R } } } inputFields { name type { ...R } } } "
                       "directives { name args { name type { ...R } } } } } "
                       "fragment R on __Type { ...L ofType { ...L ofType { ...L ofType { ...L ofType { ...L ofType { ...L } } } } } } "
                       "fragment L on __Type { kind name enumValues(includeDeprecated: true) { name } inputFields { name } }")
        queries = [("arg_types", ARG_TYPES_Q), ("meta_typenames", META_Q), ("schema_all", schema_query(True)), ("schema_nodep", schema_query(False)),
                   ("types_all", type_query(type_names, True)), ("types_nodep", type_query(type_names, False))]
        # (`includeDeprecated: null` is not asserted: the specification is silent and the upstream functional tests pin
        # "null includes the deprecated members" - see DESIGN.md 11.3 item 22)

        async def build(mode, name):
            for d in schema.directives:
                Directive(d, schema_name=name)(NoopDirective())
            for td in schema.types.values():
                if td.kind == "SCALAR" and td.custom:
                    Scalar(td.name, schema_name=name)(XStr() if td.custom == "xstr" else XNum())
            await asyncio.sleep(0)
            enc_kw = {"sdl_file_encoding": file_encoding}
            if file_encoding == "utf-8" and default_encoding:
                enc_kw = {}  # UTF-8 files read with the engine's default encoding (the interpreter runs in UTF-8 mode)
            return await create_engine(supplies[mode], schema_name=name, **enc_kw, **engine_opts)

        async def ask(mode, engine, label, text):
            await loop.point(("ask", mode, label))
            results[(mode, label)] = await engine.execute(text)

        async def main():
            engines = {}
            tasks = {}
            for mi, mode in enumerate(modes):
                name = "%s_%d_%s" % (ID, seed, mode)
                names.append(name)
                tasks[mode] = loop.create_task(build(mode, name))
            for mode, tk in tasks.items():
                try:
                    engines[mode] = await tk
                except Exception as e:  # noqa: BLE001
                    viol.append(V("cook_failed", "supplying the SDL as %s failed: %r" % (mode, e), mode=mode, exc=type(e).__name__))
            qtasks = [loop.create_task(ask(mode, eng, label, text)) for mode, eng in engines.items() for label, text in queries]
            await asyncio.gather(*qtasks)

        registry_mod.glob = fake_glob
        try:
            run_sim(loop, main())
        except (SimDeadlock, SimStepCap) as e:
            out.exc = e
            viol.append(V("no_termination", repr(e)))
        finally:
            registry_mod.glob = real_glob
        out.events, out.trace = loop.events, loop.trace
        out.releases, out.multi_choice, out.max_parked, out.vsec, out.order = loop.releases, loop.multi_choice, loop.max_parked, loop.vsec, loop.order_digest()
    finally:
        for n in names:
            forget(n)
        shutil.rmtree(tmp, ignore_errors=True)
    compared = 0
    SCHEMA[0] = schema
    if not viol:
        model_types = {n: td for n, td in schema.types.items()}
        for mode in modes:
            if (mode, "schema_all") not in results:
                continue
            compared += 1
            for label, text in queries:
                resp = results[(mode, label)]
                viol.extend(check_envelope(resp, text))
            if not hidden_schema:
                # __typename of the introspection objects themselves
                mt = results[(mode, "meta_typenames")]
                bad_meta = []

                def walk_meta(node, expect):
                    if isinstance(node, list):
                        for x in node:
                            walk_meta(x, expect)
                        return
                    if not isinstance(node, dict):
                        return
                    if node.get("__typename") != expect:
                        bad_meta.append((expect, node.get("__typename", "<absent>")))
                    for k2, exp2 in (("queryType", "__Type"), ("types", "__Type"), ("type", "__Type"), ("ofType", "__Type"), ("interfaces", "__Type"),
                                     ("possibleTypes", "__Type"), ("fields", "__Field"), ("args", "__InputValue"), ("inputFields", "__InputValue"),
                                     ("enumValues", "__EnumValue"), ("directives", "__Directive")):
                        if node.get(k2) is not None:
                            walk_meta(node[k2], exp2)

                if mt.get("errors") or not mt.get("data"):
                    viol.append(V("introspection_failed", "[%s] meta_typenames: %r" % (mode, repr(mt.get("errors"))[:300])))
                else:
                    walk_meta(mt["data"]["__schema"], "__Schema")
                    if bad_meta:
                        viol.append(V("meta_typename", "[%s] __typename of introspection objects: expected / got %r" % (mode, bad_meta[:4])))
            if not hidden_schema:
                at = results[(mode, "arg_types")]
                if at.get("errors") or not at.get("data"):
                    viol.append(V("introspection_failed", "[%s] arg_types: %r" % (mode, repr(at.get("errors"))[:300])))
                else:
                    bad_ref = []

                    def check_ref(where, node):
                        while isinstance(node, dict) and node.get("ofType") is not None:
                            node = node["ofType"]
                        if not isinstance(node, dict) or node.get("name") not in schema.types:
                            return
                        td = schema.types[node["name"]]
                        want_ev = [v.name for v in td.values] if td.kind == "ENUM" else None
                        want_if = list(td.fields) if td.kind == "INPUT_OBJECT" else None
                        got_ev = [v["name"] for v in node["enumValues"]] if node.get("enumValues") is not None else None
                        got_if = [v["name"] for v in node["inputFields"]] if node.get("inputFields") is not None else None
                        if node.get("kind") != td.kind or (got_ev is None) != (want_ev is None) or (got_if is None) != (want_if is None) \
                                or sorted(got_ev or []) != sorted(want_ev or []) or sorted(got_if or []) != sorted(want_if or []):
                            bad_ref.append((where, node.get("name"), node.get("kind"), got_ev, got_if))

                    sch_ = at["data"]["__schema"]
                    for t_ in sch_["types"]:
                        for f_ in t_.get("fields") or []:
                            for a_ in f_.get("args") or []:
                                check_ref("%s.%s(%s:)" % (t_["name"], f_["name"], a_["name"]), a_["type"])
                        for a_ in t_.get("inputFields") or []:
                            check_ref("%s.%s" % (t_["name"], a_["name"]), a_["type"])
                    for d_ in sch_["directives"]:
                        for a_ in d_.get("args") or []:
                            check_ref("@%s(%s:)" % (d_["name"], a_["name"]), a_["type"])
                    if bad_ref:
                        viol.append(V("argument_type_described_differently", "[%s] the type of an argument / input field, reached through "
                                      "`type`, is not described like its entry in __schema.types: %r" % (mode, bad_ref[:3])))
            if hidden_schema:
                for label, _ in queries:
                    resp = results[(mode, label)]
                    if not resp.get("errors") or (resp.get("data") is not None and label.startswith("schema") and resp["data"].get("__schema") is not None):
                        viol.append(V("hidden_schema_introspected", "[%s] schema marked @nonIntrospectable answered %s: %r" % (
                            mode, label, repr(resp)[:300])))
                    # every refusal is reported where THIS request asked: a path starting at one of its own
                    # response keys, a location pointing at that key in its own text, no path twice
                    lines_ = dict(queries)[label].splitlines()
                    paths_ = []
                    for e_ in resp.get("errors") or []:
                        p_ = e_.get("path")
                        if not p_:
                            continue
                        paths_.append(tuple(p_))
                        at_ = [lines_[l_["line"] - 1][l_["column"] - 1:] if 0 < l_["line"] <= len(lines_) else "" for l_ in e_.get("locations") or []]
                        if at_ and not any(a_.startswith(str(p_[0])) for a_ in at_):
                            viol.append(V("hidden_schema_error_misplaced", "[%s] %s: the refusal reported at path %r has locations %r, where the "
                                          "request reads %r" % (mode, label, p_, e_.get("locations"), [a_[:20] for a_ in at_])))
                            break
                    if len(set(paths_)) != len(paths_):
                        viol.append(V("hidden_schema_error_misplaced", "[%s] %s: several refusals carry one path: %r" % (mode, label, sorted(paths_)[:6])))
                continue
            for incl, slabel, tlabel in ((True, "schema_all", "types_all"), (False, "schema_nodep", "types_nodep")):
                resp = results[(mode, slabel)]
                if resp.get("errors") or not resp.get("data"):
                    viol.append(V("introspection_failed", "[%s] %s: %r" % (mode, slabel, repr(resp.get("errors"))[:400])))
                    continue
                data = resp["data"]
                if data.get("__typename") != schema.query:
                    viol.append(V("typename", "[%s] root __typename %r" % (mode, data.get("__typename"))))
                s = data["__schema"]
                roots = (s["queryType"] and s["queryType"]["name"], s["mutationType"] and s["mutationType"]["name"],
                         s["subscriptionType"] and s["subscriptionType"]["name"])
                if roots != (schema.query, schema.mutation, schema.subscription):
                    declared = (schema.query, schema.mutation, schema.subscription)
                    only_stray = schema.explicit_schema_def and all(
                        r == d or (d is None and r == dn and dn in schema.types)
                        for r, d, dn in zip(roots, declared, ("Query", "Mutation", "Subscription")))
                    viol.append(V("root_types", "[%s] root operation types %r, declared %r" % (mode, roots, declared),
                                  cause="undeclared_type_with_default_root_name" if only_stray else "other"))
                got = {}
                for t in s["types"]:
                    if t["name"] in got:
                        viol.append(V("type_listed_twice", "[%s] type %s listed twice" % (mode, t["name"])))
                    got[t["name"]] = norm_type(t)
                for n, td in model_types.items():
                    if n not in got:
                        viol.append(V("declared_type_missing", "[%s] declared type %s is missing from __schema.types" % (mode, n), kind=td.kind))
                        continue
                    d = diff_dict(got[n], expected_norm(schema, td, incl))
                    if d:
                        viol.append(V("type_differs", "[%s includeDeprecated=%s] type %s: reported != declared at %s" % (mode, incl, n, d),
                                      kind=td.kind, where=d.split(":")[0].split("/")[1] if "/" in d else ""))
                extra = [n for n in got if n not in model_types and n not in BUILTIN_SCALARS and not n.startswith("__")]
                if extra:
                    viol.append(V("undeclared_type", "[%s] types beyond declarations and built-ins: %r" % (mode, extra)))
                gd = {d["name"]: d for d in s["directives"]}
                for dn, dd in schema.directives.items():
                    if dn not in gd:
                        viol.append(V("declared_directive_missing", "[%s] directive @%s missing" % (mode, dn)))
                        continue
                    g = gd[dn]
                    exp = {"name": dn, "description": dd.description, "locations": sorted(dd.locations),
                           "args": {a.name: {"name": a.name, "description": a.description, "type": type_ref(schema, a.type),
                                             "defaultValue": norm_default(a.default, a.type, schema)} for a in dd.args.values()}}
                    gotd = {"name": g["name"], "description": g.get("description"), "locations": sorted(g["locations"]),
                            "args": {a["name"]: {"name": a["name"], "description": a.get("description"), "type": norm_ref(a["type"]),
                                                 "defaultValue": norm_default(parse_default(a.get("defaultValue")), ref_to_type(norm_ref(a["type"])), schema)} for a in g["args"]}}
                    d = diff_dict(gotd, exp)
                    if d:
                        viol.append(V("directive_differs", "[%s] directive @%s: reported != declared at %s" % (mode, dn, d)))
                extra_d = [n for n in gd if n not in schema.directives and n not in BUILTIN_DIRECTIVES]
                if extra_d:
                    viol.append(V("undeclared_directive", "[%s] directives beyond declarations and built-ins: %r" % (mode, extra_d)))
                # __type(name:) agrees with the __schema.types entry, null for unknown names
                tr = results[(mode, tlabel)]
                if tr.get("errors") or not tr.get("data"):
                    viol.append(V("introspection_failed", "[%s] %s: %r" % (mode, tlabel, repr(tr.get("errors"))[:400])))
                else:
                    for i, n in enumerate(type_names):
                        v = tr["data"].get("t%d" % i)
                        if n in unknown_names:
                            if v is not None:
                                viol.append(V("unknown_type_not_null", "[%s] __type(name: %r) is %r" % (mode, n, v)))
                            continue
                        if n in got:
                            d = diff_dict(norm_type(v), got[n])
                            if d:
                                viol.append(V("type_field_disagrees_with_schema_types", "[%s] __type(name: %s) != its __schema.types entry at %s" % (mode, n, d)))
            if len(viol) > 6:
                break
        # all supply modes agree
        ok_modes = [m for m in modes if (m, "schema_all") in results]
        for m in ok_modes[1:]:
            for label, _ in queries:
                a, b = results[(ok_modes[0], label)], results[(m, label)]
                na = canon(sorted((t["name"], canon(norm_type(t))) for t in ((a.get("data") or {}).get("__schema") or {}).get("types", []))) if label.startswith("schema") else None
                nb = canon(sorted((t["name"], canon(norm_type(t))) for t in ((b.get("data") or {}).get("__schema") or {}).get("types", []))) if label.startswith("schema") else None
                if na != nb:
                    viol.append(V("supply_modes_disagree", "introspection differs between supplying the SDL as %s and as %s (%s)" % (ok_modes[0], m, label)))
    r = base_result(tape, out, viol)
    r["digest"] = run_digest(out.trace, out.events, sorted((k, canon(v)) for k, v in results.items()), repr(out.exc))
    r["case_digest"] = run_digest(canonical, modes, layout_desc)
    r["evals"] = max(1, compared)
    multi = any(m in ("files", "dir") for m in modes)
    r["nontrivial"] = bool(not viol and exts and len(modes) >= 2 and multi)
    r["sched_kinds"] = {sch[0] + ("+eager" if sch[2].endswith("+eager") else ""): 1}
    r["faults"] = {"glob_order_permuted": glob_calls[0], "extension_kinds_" + "_".join(sorted({e.kind for e in exts})): 1 if exts else 0}
    r["metrics"] = {"engines": len(modes), "extensions": len(exts), "types": len(schema.types), "custom_directives": len(schema.directives),
                    "files_written": sum(len(v) for v in layout_desc.values())}
    r["probes"] = {"mode_" + m: 1 for m in modes}
    r["probes"].update({"sdl_files_in_latin1": int(file_encoding == "latin-1"), "sdl_respelt": respelt, "schema_nonIntrospectable": int(hidden_schema), "hidden_field": int(any(getattr(f, "hidden", False) for td in schema.types.values() if td.kind == "OBJECT" for f in td.fields.values())),
                        "extend_schema": int(any(e.kind == "SCHEMA" for e in exts)), "extend_union": int(any(e.kind == "UNION" for e in exts)),
                        "extend_enum": int(any(e.kind == "ENUM" for e in exts)), "extend_input": int(any(e.kind == "INPUT_OBJECT" for e in exts)),
                        "extend_interface": int(any(e.kind == "INTERFACE" for e in exts)), "extend_object": int(any(e.kind == "OBJECT" for e in exts)),
                        "extend_scalar": int(any(e.kind == "SCALAR" for e in exts)),
                        "nested_directory": int(any("nested" in p for v in layout_desc.values() for p in v)),
                        "same_file_name_in_several_directories": int(same_names[0] >= 2)})
    if want_case or viol:
        r["case"] = {"sdl_canonical": canonical, "modes": modes, "file_layout": layout_desc,
                     "responses": {"%s/%s" % k: repr(v)[:400] for k, v in list(results.items())[:4]}}
        r["trace"] = trace_tail(out)
    return r
