"""C06 -- valid documents are never refused by validation.

The C01 machinery with the document generator's "unusual but legal" knobs at maximum: diamond
fragment graphs, a fragment spread several times in one selection set, fragments sharing
sub-fragments, definitions after use, variables used only in fragments, @skip/@include on every
legal location, identical repeated fields, introspection meta-fields, several named operations."""
from simv.checks.common import COMMON_ASSUMPTIONS, run_single, strip_private

ID = "C06"
LEVEL = "exploration"
QUICK_RUNS = 4000
CHUNK = 20
RULE = ("seed -> schema, document valid by construction against the full June-2018 rule set with the legal-but-unusual knobs "
        "turned up (fragment spread probability 35%, up to 6 fragments forming a DAG with sharing, repeated/merged fields 40%, "
        "directives 25%, variables 40%, introspection fields), variables, data. Oracle: the engine does not answer with "
        "request-level (validation) errors and data == reference executor. Non-trivial = document with >= 2 fragment "
        "definitions or a probe hit among {fragment spread twice, shared sub-fragment, variable only in fragment, repeated key, "
        "introspection}; distinct = (SDL, query, variables) digest.")
ASSUMPTIONS = COMMON_ASSUMPTIONS + [
    "validity by construction: the generator enforces the June-2018 rules conservatively (one response key = one field, "
    "arguments and type in any merged scope)",
]

DOC_KNOBS = dict(frag_pct=35, max_frags=6, repeat_pct=40, skip_pct=25, var_pct=40, typename_pct=18, inline_pct=22,
                 max_ops=3, introspection_pct=40, alias_pct=35, op_kinds=("query", "mutation", "subscription"))


def chain_document(n):
    """A valid document: F_i spreads F_{i+1} twice (fragments sharing a sub-fragment, n + 1 fragments)."""
    parts = ["query Q($v: Int) { ...F0 }"]
    for i in range(n):
        parts.append("fragment F%d on Query { q { ...F%d } x: q { ...F%d } }" % (i, i + 1, i + 1))
    parts.append("fragment F%d on Query { a(p: $v) }" % n)
    return " ".join(parts)


def chain_work_check(seed):
    """The work spent on accepting such a document is counted in interpreter-level function calls (deterministic,
    implementation-agnostic): three more fragments may not multiply it (a tree walk of the spread graph doubles it
    with every fragment, so that a 2 kB valid document is never answered)."""
    import sys
    from simv.actors import forget
    from simv.oracle import V
    from simv.simloop import SimLoop, run_sim
    from simv.tape import Tape
    from tartiflette import Resolver, create_engine
    name = "C06_%d_chain" % seed

    @Resolver("Query.q", schema_name=name)
    async def q(parent, args, ctx, info):
        return None  # the chain is not descended at run time: only validation sees all of it

    try:
        loop = SimLoop(Tape(seed).sub("chain"), "fifo", 0, "none")
        engine = run_sim(loop, create_engine("type Query { a(p: Int): Int q: Query }", schema_name=name, query_cache_decorator=None))
        counts = []
        for n in (9, 12):
            calls = [0]

            def prof(frame, event, arg, calls=calls):
                if event == "call":
                    calls[0] += 1
            doc = chain_document(n)
            lp = SimLoop(Tape(seed).sub("chain%d" % n), "fifo", 0, "none")
            sys.setprofile(prof)
            try:
                resp = run_sim(lp, engine.execute(doc, variables={"v": 1}))
            finally:
                sys.setprofile(None)
            if resp.get("errors"):
                return [V("valid_request_refused", "fragment chain of %d refused: %r" % (n, resp["errors"][:1]), tag="chain")], counts
            counts.append(calls[0])
        if counts[1] > 4 * counts[0]:
            return [V("acceptance_work_explodes", "accepting a chain of 13 fragments (each spreading the next one twice) takes %d function "
                      "calls, a chain of 10 takes %d: the spread graph is walked as a tree, a 2 kB valid document would never be "
                      "answered" % (counts[1], counts[0]))], counts
        return [], counts
    finally:
        forget(name)


def run_one(seed, preset=None, tier="quick", want_case=False):
    from simv.gen.document import mirror_post
    r = run_single(ID, seed, preset, want_case, doc_knobs=DOC_KNOBS, schema_knobs={"max_objects": 4, "subscription_pct": 30}, doc_post=mirror_post)
    if r.get("early"):
        return strip_private(r)
    plan, case = r["_plan"], r["_case"]
    p = r["probes"]
    hits = [k for k in ("fragment_spread_twice_same_owner", "fragments_share_subfragment", "var_only_in_fragment", "repeated_key",
                        "introspection___type", "introspection___schema", "fragments_after_use", "merged_subselection",
                        "fragment_visited_twice", "skip_on_spread", "subscription_root_repeated") if p.get(k)]
    r["nontrivial"] = bool(not r["viol"] and (len(case.doc.fragments()) >= 2 or hits))
    if seed % 40 == 0:
        cv, counts = chain_work_check(seed)
        r["probes"]["fragment_chain_work_measured"] = 1
        if cv:
            r["viol"].extend(cv)
            r["nontrivial"] = False
            if "tape" not in r:
                from simv.tape import Tape
                r["tape"] = {}
    return strip_private(r)
