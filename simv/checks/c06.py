"""C06 -- valid documents are never refused by validation.

The C01 machinery with the document generator's "unusual but legal" knobs at maximum: diamond
fragment graphs, a fragment spread several times in one selection set, fragments sharing
sub-fragments, definitions after use, variables used only in fragments, @skip/@include on every
legal location, identical repeated fields, introspection meta-fields, several named operations."""
from simv.checks.common import COMMON_ASSUMPTIONS, run_single, strip_private

ID = "C06"
LEVEL = "exploration"
QUICK_RUNS = 4000
CHUNK = 20
RULE = ("seed -> schema, document valid by construction against the full June-2018 rule set with the legal-but-unusual knobs "
        "turned up (fragment spread probability 35%, up to 6 fragments forming a DAG with sharing, repeated/merged fields 40%, "
        "directives 25%, variables 40%, introspection fields), variables, data. Oracle: the engine does not answer with "
        "request-level (validation) errors and data == reference executor. Non-trivial = document with >= 2 fragment "
        "definitions or a probe hit among {fragment spread twice, shared sub-fragment, variable only in fragment, repeated key, "
        "introspection}; distinct = (SDL, query, variables) digest.")
ASSUMPTIONS = COMMON_ASSUMPTIONS + [
    "validity by construction: the generator enforces the June-2018 rules conservatively (one response key = one field, "
    "arguments and type in any merged scope)",
]

DOC_KNOBS = dict(frag_pct=35, max_frags=6, repeat_pct=40, skip_pct=25, var_pct=40, typename_pct=18, inline_pct=22,
                 max_ops=3, introspection_pct=40, alias_pct=35, op_kinds=("query", "mutation", "subscription"))


def run_one(seed, preset=None, tier="quick", want_case=False):
    r = run_single(ID, seed, preset, want_case, doc_knobs=DOC_KNOBS, schema_knobs={"max_objects": 4, "subscription_pct": 30})
    if r.get("early"):
        return strip_private(r)
    plan, case = r["_plan"], r["_case"]
    p = r["probes"]
    hits = [k for k in ("fragment_spread_twice_same_owner", "fragments_share_subfragment", "var_only_in_fragment", "repeated_key",
                        "introspection___type", "introspection___schema", "fragments_after_use", "merged_subselection",
                        "fragment_visited_twice", "skip_on_spread", "subscription_root_repeated") if p.get(k)]
    r["nontrivial"] = bool(not r["viol"] and (len(case.doc.fragments()) >= 2 or hits))
    return strip_private(r)
