"""C08 -- results do not depend on resolver scheduling or concurrency settings.

One run = one request (fault-free or with an injected fault set) executed under several engine
concurrency configurations x several seeded schedules (and, for small requests, *all* completion
orders by DFS over the scheduler's release decisions).  All runs are compared with each other:
identical data, identical set of null positions explained by errors; plus per run: everything
started has finished when execute returns, nothing started twice, nothing left behind, termination."""
from simv.actors import ENGINE_CONFIGS, forget
from simv.checks.common import COMMON_ASSUMPTIONS, base_result, exc_violation, trace_tail
from simv.harness import cook_engine, execute_once, gen_case, make_plan, pick_scheduler, run_digest
from simv.model.exec import enumerate_fault_sites, same_list_fault_pair
from simv.oracle import V, check_against_plan, check_envelope, first_diff, same
from simv.simloop import Script, next_script
from simv.tape import Tape

ID = "C08"
LEVEL = "exploration"
QUICK_RUNS = 1200
CHUNK = 8
RULE = ("seed -> request (as C01, smaller) with or without an injected fault set; executed under engine configurations drawn "
        "from coerce_list_concurrently x coerce_parent_concurrently x {gather, sync} arguments coercer (plus per-field Resolver "
        "overrides in the schema) x K seeded schedules (6 scheduler kinds); requests with <= 5 suspension points are enumerated "
        "exhaustively by DFS over release decisions (cap 130 executions). Oracle: all responses have identical data and the "
        "same error-explained null positions; started == finished, no resolver started twice, no task/gate left, termination. "
        "evaluations = engine executions; non-trivial = >= 3 suspended resolvers and >= 2 distinct release orders; distinct = request digest.")
ASSUMPTIONS = COMMON_ASSUMPTIONS + [
    "harness resolvers are pure by construction (results are fixed per response position before the engine runs)",
]


def explained_nulls(resp):
    """Reference-free: the null positions of data that errors point at (deepest existing prefix)."""
    out = set()
    data = resp.get("data")
    for e in resp.get("errors") or []:
        p = e.get("path") if isinstance(e, dict) else None
        if p is None:
            out.add(("<no-path>",))
            continue
        cur = data
        q = []
        for step in p:
            if cur is None:
                break
            try:
                cur = cur[step]
            except (KeyError, IndexError, TypeError):
                break
            q.append(step)
        out.add(tuple(q))
    return out


def per_run_checks(out, label):
    vs = []
    if out.exc is not None:
        v = exc_violation(out)
        v["detail"] = "[%s] %s" % (label, v["detail"])
        return [v]
    rt = out.rt
    if rt.started != rt.finished:
        unfinished = [list(p) for p in rt.started if rt.started[p] != rt.finished.get(p, 0)]
        vs.append(V("started_not_finished", "[%s] resolvers started but not finished when execute returned: %r" % (label, unfinished[:5])))
    twice = [list(p) for p, n in rt.started.items() if n > 1]
    if twice:
        vs.append(V("started_twice", "[%s] resolvers started more than once: %r" % (label, twice[:5])))
    if out.tasks_alive or out.parked_left:
        vs.append(V("work_left_behind", "[%s] %d tasks alive, %d gates parked when execute returned" % (label, out.tasks_alive, out.parked_left)))
    return vs


def run_one(seed, preset=None, tier="quick", want_case=False):
    tape = Tape(seed, preset)
    cfgt = tape.sub("cfg")
    ft = tape.sub("fault")
    case = gen_case(tape, doc_knobs={"max_depth": 3, "max_sel": 4, "max_ops": 2, "max_frags": 3},
                    schema_knobs={"max_objects": 4, "default_impl_pct": 10, "lag_pct": 25 if (seed % 3 == 0) else 0})
    plan_knobs = {"mid_list_pct": 6}
    base = make_plan(case, tape, knobs=plan_knobs)
    plan = base
    faults = {}
    if not base.refused and cfgt.chance(55):
        sites = enumerate_fault_sites(base)
        if sites:
            pair = same_list_fault_pair(base, ft) if ft.chance(40) else None
            if pair:
                faults.update(pair)
            for _ in range(ft.weighted([(4, 1), (2, 2), (1, 3)]) if not pair else ft.draw(2)):
                p, k = sites[ft.draw(len(sites))]
                faults[p] = k
            t2 = Tape(seed, preset)
            plan = make_plan(case, t2, faults, base=base, knobs=plan_knobs)
            for k, v in t2.used.items():
                if k.startswith("data") and len(v) > len(tape.used.get(k, ())):
                    tape.used[k] = v
    n_cfg = 3 if tier == "quick" else 8
    k_sched = 4 if tier == "quick" else 12
    cfgs = cfgt.shuffle(list(range(8)))[:n_cfg]
    viol, digests = [], []
    metrics = {"executions": 0, "dfs_requests_exhausted": 0, "dfs_requests_truncated": 0, "dfs_executions": 0,
               "sampled_executions": 0, "configs": 0}
    sched_kinds, orders = {}, set()
    tot = {"releases": 0, "multi": 0, "vsec": 0.0}
    ref = None  # (label, resp)
    last_out = None
    names = []
    max_susp = 0

    def compare(out, label):
        nonlocal ref
        if out.exc is not None:
            return
        if ref is None:
            ref = (label, out.resp)
            return
        if not same(out.resp.get("data"), ref[1].get("data")):
            viol.append(V("schedule_dependent_data", "data under [%s] differs from data under [%s]: %s" % (
                label, ref[0], first_diff(out.resp.get("data"), ref[1].get("data")))))
        elif explained_nulls(out.resp) != explained_nulls(ref[1]):
            viol.append(V("schedule_dependent_errors", "explained null positions under [%s] %r differ from [%s] %r" % (
                label, sorted(map(list, explained_nulls(out.resp)), key=repr), ref[0],
                sorted(map(list, explained_nulls(ref[1])), key=repr))))

    try:
        for ci in cfgs:
            cfg = dict(ENGINE_CONFIGS[ci])
            cfg["type_as_object"] = False
            name = "%s_%d_%d" % (ID, seed, ci)
            names.append(name)
            engine = cook_engine(case.schema, name, cfg, sdl=case.sdl)
            metrics["configs"] += 1
            for si in range(k_sched):
                st = tape.sub("cfg_%d_%d" % (ci, si))
                sch = pick_scheduler(st)
                label = "cfg%d %s sched%d %s" % (ci, {k: v for k, v in cfg.items() if k != "type_as_object"}, si, sch)
                out = execute_once(engine, case.text, case.op_name, case.variables, plan, tape.sub("sched_%d_%d" % (ci, si)),
                                   sch[0], sch[1], sch[2], root_value=plan.root_value)
                last_out = out
                metrics["executions"] += 1
                metrics["sampled_executions"] += 1
                sched_kinds[sch[0] + ("+eager" if sch[2].endswith("+eager") else "")] = sched_kinds.get(sch[0] + ("+eager" if sch[2].endswith("+eager") else ""), 0) + 1
                orders.add(out.order)
                max_susp = max(max_susp, out.max_parked)
                tot["releases"] += out.releases
                tot["multi"] += out.multi_choice
                tot["vsec"] += out.vsec
                digests.append(run_digest(out.trace, out.events, out.resp, repr(out.exc)))
                viol.extend(per_run_checks(out, label))
                if out.exc is None:
                    for v in check_envelope(out.resp, case.text):
                        viol.append(v)
                    if si == 0:
                        for v in check_against_plan(case, plan, out.resp, out.rt, out.events):
                            v["detail"] = "[%s] %s" % (label, v["detail"])
                            viol.append(v)
                compare(out, label)
                if len(viol) > 5:
                    break
            # exhaustive DFS over completion orders for small requests
            n_calls = len([c for c in plan.calls if c.args is not None])
            if not viol and 2 <= n_calls <= 5:
                prefix, n_exec, exhausted = [], 0, False
                while True:
                    script = Script(prefix)
                    out = execute_once(engine, case.text, case.op_name, case.variables, plan, script,
                                       "script", 0, "gate", root_value=plan.root_value)
                    n_exec += 1
                    metrics["executions"] += 1
                    metrics["dfs_executions"] += 1
                    orders.add(out.order)
                    tot["releases"] += out.releases
                    tot["multi"] += out.multi_choice
                    label = "cfg%d DFS %r" % (ci, [c for c, _ in script.log])
                    viol.extend(per_run_checks(out, label))
                    compare(out, label)
                    digests.append(run_digest(out.order, out.resp))
                    nxt = next_script(script.log)
                    if nxt is None:
                        exhausted = True
                        break
                    if n_exec >= 130 or viol:
                        break
                    prefix = nxt
                metrics["dfs_requests_exhausted" if exhausted else "dfs_requests_truncated"] += 1
            if len(viol) > 5:
                break
    finally:
        for n in names:
            forget(n)
    wide_info = None
    wt = tape.sub("wide")
    if wt.chance(4):
        # a fan-out wider than any small bound an engine might put on its concurrency
        from simv.wide import run_wide
        wv, wide_info = run_wide(wt, "%s_%d_wide" % (ID, seed), [wt.rint(1030, 2300)], scheduler=wt.choose(["random", "lifo", "fifo"]),
                                 lc=wt.choose([None, True]), pc=wt.choose([None, True, False]))
        viol.extend(wv)
    r = base_result(tape, last_out, viol)
    r["digest"] = run_digest(digests)
    r["case_digest"] = case.digest()
    r["evals"] = metrics["executions"]
    r["nontrivial"] = bool(not viol and max_susp >= 3 and len(orders) >= 2 and not plan.refused)
    r["metrics"] = metrics
    r["sched_kinds"] = sched_kinds
    r["faults"] = dict(plan.faults_fired)
    r["probes"] = {"with_faults": int(bool(faults)), "distinct_orders_ge_5": int(len(orders) >= 5), "fanout_over_1024_rows": int(wide_info is not None)}
    r["order"] = run_digest(sorted(orders))
    r["releases"], r["multi_choice"], r["vsec"] = tot["releases"], tot["multi"], tot["vsec"]
    r["metrics"]["distinct_release_orders_in_run"] = len(orders)
    if viol:
        from simv.model.document import doc_to_json
        r["doc_model"] = doc_to_json(case.doc)
    if want_case or viol:
        c = case.render()
        c["faults"] = {repr(list(k)): v for k, v in faults.items()}
        c["configs"] = [ENGINE_CONFIGS[i] for i in cfgs]
        c["reference_response"] = repr(ref[1])[:2000] if ref else None
        c["last_response"] = repr(last_out.resp)[:2000] if last_out is not None else None
        r["case"] = c
        r["trace"] = trace_tail(last_out) if last_out is not None else None
    return r
