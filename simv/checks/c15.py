"""C15 -- concurrent requests on one engine do not influence each other.

One run = one engine, 2-8 client tasks in one SimLoop (same and different documents, variables,
contexts, operation names; failing, succeeding, valid and refused requests), interleaved by the
seeded scheduler; fault kinds: one client cancelled mid-flight, resolvers of different requests
raising one shared exception instance.  Each response must equal the response of the same request
run alone on a twin engine; afterwards every request is replayed on the used engine and must
still equal its solo response."""
from simv.actors import MARK_SDL, canon, forget, register_mark
from simv.checks.common import COMMON_ASSUMPTIONS, base_result, pick_engine_cfg, trace_tail
from simv.gen.document import gen_document, gen_variables
from simv.gen.schema import gen_schema
from simv.harness import Req, corrupt_text, cook_engine, pick_scheduler, run_batch, run_digest, run_solo
from simv.model.document import print_document
from simv.model.exec import RefExec, enumerate_fault_sites
from simv.model.schema import ABSENT, DirUse, print_sdl
from simv.oracle import V, check_calls, check_envelope, first_diff, same
from simv.simloop import SimDeadlock, SimStepCap
from simv.tape import Tape

ID = "C15"
LEVEL = "exploration"
QUICK_RUNS = 3000
CHUNK = 10
RULE = ("seed -> schema, pool of 1-3 documents (+ refused variants: syntax error, unknown field, unused / unknown fragment), "
        "2-8 requests over the pool (different variables, operation names, fault sets incl. one exception instance shared by "
        "all requests), one engine, one SimLoop, staggered client starts, optional cancellation of one client at a "
        "scheduler-chosen moment. Oracle: each non-cancelled response == response of the same request alone on a twin engine "
        "(data strictly, errors as a multiset); every resolver saw only its own request's context and planned arguments; after "
        "the batch each request replayed on the used engine == its solo response. evaluations = requests executed in batches; "
        "non-trivial = >= 2 requests whose resolvers were suspended at the same time; distinct = digest of the request multiset.")
ASSUMPTIONS = COMMON_ASSUMPTIONS + ["resolvers are pure per request (planned per response position)"]


def norm_errors(resp):
    return sorted(canon(e) for e in (resp.get("errors") or []))


def same_response(a, b):
    if a is None or b is None:
        return a is b
    if not same(a.get("data"), b.get("data")):
        return False
    return ("errors" in a) == ("errors" in b) and norm_errors(a) == norm_errors(b)


SHARED_MSG = "shared application error"


def strip_shared(resp):
    """The response without the path/locations of errors raised from the shared exception instance."""
    if not isinstance(resp, dict) or "errors" not in resp:
        return resp
    out = dict(resp)
    out["errors"] = [({"message": SHARED_MSG} if (isinstance(e, dict) and e.get("message") == SHARED_MSG) else e)
                     for e in resp["errors"]]
    return out


def strip_shared_entries(resp):
    if not isinstance(resp, dict) or "errors" not in resp:
        return resp
    out = dict(resp)
    out["errors"] = [e for e in resp["errors"] if not (isinstance(e, dict) and e.get("message") == SHARED_MSG)] or [
        {"message": "x", "path": None, "locations": []}]
    return out


def diff_kind(a, b):
    """Classify a difference: only the path/locations of shared-exception errors, or anything else."""
    if same_response(strip_shared(a), strip_shared(b)):
        return "shared_exception_path_or_locations_only"
    return "other"


def describe_diff(a, b):
    d = first_diff(a.get("data"), b.get("data"))
    if d:
        return "data: " + d
    return "errors: %r != %r" % (norm_errors(a)[:3], norm_errors(b)[:3])


def build_requests(tape, schema, tier, shared_pct=40, max_req=None):
    t = tape.sub("ops")
    ndocs = t.rint(1, 3)
    docs = []
    for i in range(ndocs):
        novars = t.chance(30)
        doc = gen_document(schema, tape, {"max_depth": 3, "max_sel": 4, "max_frags": 2, "max_ops": 2,
                                          "var_pct": 0 if novars else 25, "directive_vars": not novars, "opt_arg_pct": 35 if novars else 55},
                           stream="doc%d" % i)
        # a query-side custom directive whose argument comes from a variable: the same text with
        # other variable values must behave differently (odd k fails the field)
        if t.chance(50) and not novars:
            for op in doc.operations():
                fields = [x for x in op.sels if x.kind == "field" and x.name != "__typename"]
                if fields and op.op != "subscription":
                    f = fields[t.draw(len(fields))]
                    if t.chance(50):
                        f.directives = list(f.directives) + [DirUse("mark", [("k", ("var", "mk"))])]
                    else:  # the variable nested two levels deep in a list literal
                        f.directives = list(f.directives) + [DirUse("mark", [("k", ("int", 0)), ("deep", ("list", [("list", [("var", "mk"), ("int", 4)])]))])]
                    op.vardefs = list(op.vardefs) + [("mk", ("NN", ("N", "Int")), ABSENT)]
        text = print_document(doc, tape.draw("doc%d" % i, 3))
        docs.append((doc, text))
    nreq = t.rint(2, max_req or (5 if tier == "quick" else 8))
    reqs = []
    for rid in range(nreq):
        di = t.draw(ndocs)
        doc, text = docs[di]
        ops = doc.operations()
        op = ops[t.draw(len(ops))]
        op_name = op.name if (len(ops) > 1 or (op.name and t.chance(50))) else None
        variables = gen_variables(schema, tape, op, stream="vars%d" % rid)
        if any(v[0] == "mk" for v in op.vardefs):
            variables["mk"] = t.draw(6)
        label = "doc%d" % di
        plan = None
        if t.chance(18):
            text2, why = corrupt_text(text, t)
            reqs.append(Req(rid, text2, op_name, variables, None, label + ":" + why))
            continue
        if t.chance(8):
            op_name = "NoSuchOperation"
            label += ":unknown-operation"
        ex = RefExec(schema, doc, tape, "data%d" % rid)
        base = ex.run(op_name, variables)
        plan = base
        if not base.refused and t.chance(50):
            sites = enumerate_fault_sites(base)
            if sites:
                faults = {}
                for _ in range(t.weighted([(3, 1), (1, 2)])):
                    p, k = sites[t.draw(len(sites))]
                    if k in ("raise", "raise_tf") and t.chance(shared_pct):
                        k = "raise_shared"
                    faults[p] = k
                ex2 = RefExec(schema, doc, Tape(tape.seed, tape.preset), "data%d" % rid, faults, base_over=base.over)
                plan = ex2.run(op_name, variables)
                for k2, v2 in ex2.tape.used.items():
                    if k2.startswith("data") and len(v2) > len(tape.used.get(k2, ())):
                        tape.used[k2] = v2
                label += ":faults=%s" % sorted(set(faults.values()))
        reqs.append(Req(rid, text, op_name, variables, plan, label))
    return reqs


def run_one(seed, preset=None, tier="quick", want_case=False):
    tape = Tape(seed, preset)
    cfgt = tape.sub("cfg")
    schema = gen_schema(tape, {"max_objects": 4, "default_impl_pct": 15, "lag_pct": 20 if (seed % 4 == 0) else 0})
    sdl = print_sdl(schema) + MARK_SDL
    reqs = build_requests(tape, schema, tier)
    cfg = pick_engine_cfg(cfgt)
    cache = cfgt.choose(["default", "default", "none", "lru1"])
    extra = {}
    if cache == "none":
        extra["query_cache_decorator"] = None
    elif cache == "lru1":
        from functools import lru_cache
        extra["query_cache_decorator"] = lru_cache(maxsize=1)
    sch = pick_scheduler(cfgt)
    cancel = cfgt.draw(len(reqs)) if cfgt.chance(30) else None
    cancel_steps = cfgt.draw(24) if (cancel is not None and cfgt.chance(50)) else None
    name, twin = "%s_%d" % (ID, seed), "%s_%d_twin" % (ID, seed)
    viol = []
    dfs_info = None
    try:
        engine = cook_engine(schema, name, cfg, sdl=sdl, pre=register_mark, **extra)
        twin_engine = cook_engine(schema, twin, cfg, sdl=sdl, pre=register_mark, query_cache_decorator=None)
        shared = {}
        out = run_batch(engine, reqs, tape.sub("sched"), sch[0], sch[1], sch[2], cancel, True, shared, cancel_after_steps=cancel_steps)
        if out.exc is not None:
            viol.append(V("no_termination", "batch did not terminate: %r" % (out.exc,)))
        solos = {}
        for r in reqs:
            solo, so = run_solo(twin_engine, r, tape.sub("solo%d" % r.rid), shared={})
            solos[r.rid] = solo
            if so.exc is not None or solo.exc is not None:
                viol.append(V("solo_failed", "solo run of request %d failed: %r %r" % (r.rid, so.exc, solo.exc)))
        concurrent = 0
        if out.exc is None:
            for r in reqs:
                solo = solos[r.rid]
                if r.cancelled:
                    continue
                if r.exc is not None:
                    viol.append(V("execute_raised", "request %d (%s): execute raised %r" % (r.rid, r.label, r.exc), exc=type(r.exc).__name__))
                    continue
                if r.resp is None:
                    viol.append(V("no_response", "request %d (%s) has neither response nor exception" % (r.rid, r.label)))
                    continue
                env = check_envelope(r.resp, r.text)
                if env and not check_envelope(strip_shared_entries(r.resp), r.text):
                    for v in env:
                        v["sig"]["only_in"] = "shared_exception_entries"
                viol.extend(env)
                if solo.resp is not None and not same_response(r.resp, solo.resp):
                    viol.append(V("differs_from_solo", "request %d (%s): concurrent response differs from its solo response: %s" % (
                        r.rid, r.label, describe_diff(r.resp, solo.resp)), kind=diff_kind(r.resp, solo.resp)))
                if r.rt.foreign_ctx or any(not c[4] for c in r.rt.calls):
                    viol.append(V("foreign_context", "request %d: a resolver received another request's context" % r.rid))
                if r.plan is not None and not r.plan.refused:
                    for v in check_calls(r.plan, r.rt, strict=False):
                        v["detail"] = "request %d (%s): %s" % (r.rid, r.label, v["detail"])
                        viol.append(v)
            if out.tasks_alive or out.parked_left:
                # only actors of the cancelled request may be left parked
                viol.append(V("work_left_behind", "%d tasks alive, %d gates parked after the batch" % (out.tasks_alive, out.parked_left)))
            # overlap measure: how many requests had a resolver suspended at the same time
            live = {}
            for ev in out.events:
                if ev[1] == "start":
                    live[ev[2]] = live.get(ev[2], 0) + 1
                elif ev[1] == "finish":
                    live[ev[2]] = live.get(ev[2], 0) - 1
                concurrent = max(concurrent, len([1 for n in live.values() if n > 0]))
        # small batches: enumerate ALL interleavings of the clients' resolver completions
        n_calls = sum(len([c for c in x.plan.calls if c.args is not None]) for x in reqs if x.plan is not None)
        if not viol and cancel is None and len(reqs) <= 3 and 2 <= n_calls + len(reqs) <= 6:
            from simv.simloop import Script, next_script
            prefix, n_exec, exhausted = [], 0, False
            while True:
                script = Script(prefix)
                batch = [x.clone() for x in reqs]
                bo = run_batch(engine, batch, script, "script", 0, "gate", None, True, {})
                n_exec += 1
                if bo.exc is not None:
                    viol.append(V("no_termination", "interleaving %r: %r" % ([c for c, _ in script.log], bo.exc)))
                    break
                for x in batch:
                    solo = solos[x.rid]
                    if x.exc is not None or (solo.resp is not None and not same_response(x.resp, solo.resp)):
                        viol.append(V("differs_from_solo", "interleaving %r: request %d (%s) differs from its solo response: %s" % (
                            [c for c, _ in script.log], x.rid, x.label, repr(x.exc) if x.exc is not None else describe_diff(x.resp, solo.resp)),
                            kind=diff_kind(x.resp, solo.resp) if x.exc is None else "raised"))
                nxt = next_script(script.log)
                if nxt is None:
                    exhausted = True
                    break
                if n_exec >= 150 or viol:
                    break
                prefix = nxt
            dfs_info = (n_exec, exhausted)
        # afterwards: each request replayed on the *used* engine behaves as on a fresh one
        if not [v for v in viol if v["sig"].get("kind") != "shared_exception_path_or_locations_only"
                and v["sig"].get("only_in") != "shared_exception_entries"]:
            for r in reqs:
                again, ao = run_solo(engine, r, tape.sub("after%d" % r.rid), shared={})
                solo = solos[r.rid]
                if ao.exc is not None or again.exc is not None:
                    viol.append(V("execute_raised", "request %d replayed after the batch: %r %r" % (r.rid, ao.exc, again.exc), exc="after"))
                elif solo.resp is not None and not same_response(again.resp, solo.resp):
                    viol.append(V("later_request_differs", "request %d (%s) issued after the batch differs from a fresh engine: %s" % (
                        r.rid, r.label, describe_diff(again.resp, solo.resp)), kind=diff_kind(again.resp, solo.resp)))
                    break
    finally:
        forget(name)
        forget(twin)
    wide_info = None
    wt = tape.sub("wide")
    if wt.chance(4):
        # several very wide requests in flight together (each fine alone by construction of the oracle)
        from simv.wide import run_wide
        rows = [wt.rint(350, 900) for _ in range(wt.rint(2, 3))]
        if wt.chance(20):
            rows = [wt.rint(8200, 9600), wt.rint(8200, 9600)]  # together far beyond 2^14 items in flight
        wv, wide_info = run_wide(wt, "%s_%d_wide" % (ID, seed), rows, scheduler=wt.choose(["random", "lifo", "fifo"]))
        viol.extend(wv)
    r0 = base_result(tape, out, viol)
    r0["digest"] = run_digest(out.trace, out.events, [x.resp for x in reqs], [x.cancelled for x in reqs], repr(out.exc))
    r0["case_digest"] = run_digest(sdl, [(x.text, x.op_name, x.variables) for x in reqs])
    r0["evals"] = len(reqs)
    r0["nontrivial"] = bool(not viol and concurrent >= 2)
    faults = {}
    for x in reqs:
        if x.plan is not None:
            for k, n in x.plan.faults_fired.items():
                faults[k] = faults.get(k, 0) + n
    if cancel is not None:
        faults["client_cancel_requested"] = 1
        if reqs[cancel].cancelled:
            faults["client_cancelled_in_flight"] = 1
    r0["faults"] = faults
    r0["sched_kinds"] = {sch[0] + ("+eager" if sch[2].endswith("+eager") else ""): 1}
    r0["metrics"] = {"requests": len(reqs), "max_requests_suspended_together": concurrent, "cache_" + cache: 1}
    if dfs_info:
        r0["metrics"]["dfs_executions"] = dfs_info[0]
        r0["metrics"]["dfs_batches_exhausted" if dfs_info[1] else "dfs_batches_truncated"] = 1
    labels = [x.label for x in reqs]
    r0["probes"] = {
        "same_document_twice": int(len({x.text for x in reqs}) < len(reqs)),
        "refused_request_in_batch": int(any(":" in l and "faults" not in l for l in labels)),
        "shared_exception_two_requests": int(sum(1 for x in reqs if x.plan is not None and "raise_shared" in x.plan.faults_fired) >= 2),
        "cancelled_mid_flight": int(cancel is not None and reqs[cancel].cancelled and bool(reqs[cancel].rt.started)),
        "wide_requests_together": int(wide_info is not None),
        "two_requests_of_8000_plus_rows_together": int(wide_info is not None and max(wide_info["rows"]) >= 8000),
    }
    if want_case or viol:
        r0["case"] = {"sdl": sdl, "engine_config": cfg, "cache": cache, "scheduler": sch, "cancel": cancel,
                      "requests": [x.render() for x in reqs],
                      "responses": [repr(x.resp)[:1500] for x in reqs],
                      "solo_responses": [repr(solos[x.rid].resp)[:1500] for x in reqs] if 'solos' in dir() else None}
        r0["trace"] = trace_tail(out)
    return r0
