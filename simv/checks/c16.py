"""C16 -- the query cache and request history never change a response.

One run = a state machine over one engine: a seeded sequence of requests drawn from a pool
(valid, rule-breaking, syntactically broken, same text with other variables / operation names,
str and bytes spellings; sometimes two at a time) against an engine cooked with one of the cache
configurations (default LRU(512), LRU(1), LRU(2), dict memo, *lossy* memo that forgets entries at
seeded moments, disabled).  Position by position each response must equal the response of a
fresh, uncached engine to the same request."""
from functools import lru_cache

from simv.actors import MARK_SDL, forget, register_mark
from simv.checks.c15 import build_requests, describe_diff, same_response
from simv.checks.common import COMMON_ASSUMPTIONS, base_result, pick_engine_cfg, trace_tail
from simv.gen.schema import gen_schema
from simv.harness import cook_engine, pick_scheduler, run_batch, run_digest, run_solo
from simv.model.schema import print_sdl
from simv.oracle import V, check_calls, check_envelope
from simv.tape import Tape

ID = "C16"
LEVEL = "exploration"
QUICK_RUNS = 800
CHUNK = 6
RULE = ("seed -> schema, pool of 2-8 requests (1-3 documents; refused variants; fault sets; other variables / operation names), "
        "history of 5-25 steps (thorough: up to 40) each replaying a pool entry as str or bytes, alone or two concurrently, on an "
        "engine with cache in {lru512, lru1, lru2, dict memo, lossy memo, disabled}. Oracle: response at every position == "
        "response of a freshly cooked uncached engine to that request. evaluations = history steps; non-trivial = history with "
        ">= 1 cache hit and >= 1 miss after a hit (or any history on the disabled / lossy cache) and >= 2 distinct requests; "
        "distinct = digest of (schema, history).")
ASSUMPTIONS = COMMON_ASSUMPTIONS


class Memo:
    """dict / lossy memo decorators with hit and miss counters."""

    def __init__(self, t=None, lossy_pct=0):
        self.t, self.lossy_pct = t, lossy_pct
        self.hits = self.misses = self.forgotten = 0
        self.store = {}

    def __call__(self, fn):
        def wrapper(query, schema):
            if self.lossy_pct and self.store and self.t.draw(100) < self.lossy_pct:
                keys = list(self.store)
                del self.store[keys[self.t.draw(len(keys))]]
                self.forgotten += 1
            key = (query, id(schema))
            if key in self.store:
                self.hits += 1
                return self.store[key]
            self.misses += 1
            res = fn(query, schema)
            self.store[key] = res
            return res
        return wrapper


def run_one(seed, preset=None, tier="quick", want_case=False):
    tape = Tape(seed, preset)
    cfgt = tape.sub("cfg")
    ot = tape.sub("hist")
    schema = gen_schema(tape, {"max_objects": 4, "default_impl_pct": 15})
    sdl = print_sdl(schema) + MARK_SDL
    pool = build_requests(tape, schema, tier, shared_pct=0, max_req=8)
    cfg = pick_engine_cfg(cfgt)
    cache = cfgt.choose(["lru512", "lru1", "lru2", "dict", "lossy", "none"])
    memo = None
    if cache == "lru512":
        extra = {}
    elif cache == "lru1":
        extra = {"query_cache_decorator": lru_cache(maxsize=1)}
    elif cache == "lru2":
        extra = {"query_cache_decorator": lru_cache(maxsize=2)}
    elif cache == "dict":
        memo = Memo()
        extra = {"query_cache_decorator": memo}
    elif cache == "lossy":
        memo = Memo(tape.sub("lossy"), 35)
        extra = {"query_cache_decorator": memo}
    else:
        extra = {"query_cache_decorator": None}
    nsteps = ot.rint(5, 25 if tier == "quick" else 40)
    name = "%s_%d" % (ID, seed)
    viol, names, history = [], [name], []
    baseline = {}
    flooded = [0]
    bigflooded = [0]
    out = None
    digests = []
    try:
        engine = cook_engine(schema, name, cfg, sdl=sdl, pre=register_mark, **extra)

        def fresh_response(req, as_bytes):
            key = (req.rid, as_bytes)
            if key not in baseline:
                tn = "%s_%d_f%d_%d" % (ID, seed, req.rid, int(as_bytes))
                names.append(tn)
                fe = cook_engine(schema, tn, cfg, sdl=sdl, pre=register_mark, query_cache_decorator=None)
                r2 = req.clone()
                if as_bytes:
                    r2.text = r2.text.encode("utf-8")
                solo, so = run_solo(fe, r2, tape.sub("fresh%d" % req.rid), shared={})
                baseline[key] = solo.resp if (so.exc is None and solo.exc is None) else ("EXC", repr(so.exc or solo.exc))
            return baseline[key]

        flood_at = ot.draw(nsteps) if (cache == "lru512" and ot.chance(8 if tier == "quick" else 15)) else None
        for step in range(nsteps):
            if step == flood_at:
                # push the default LRU(512) past its capacity: every earlier entry is evicted
                big = tape.sub("bigflood").chance(50)

                async def flood():
                    for n in range(520):
                        await engine.execute("{ __typename } # flood %d" % n)
                    if big:
                        # a long tail of distinct REFUSED documents as well (many more than any small table holds)
                        for n in range(4200):
                            await engine.execute("{ nopeField%d }" % n)
                        bigflooded[0] = 1
                from simv.simloop import SimLoop as _SL, run_sim as _rs
                _rs(_SL(tape.sub("flood"), "fifo", 0, "none"), flood())
                flooded[0] = 1
            k = 2 if ot.chance(20) else 1
            batch = []
            for j in range(k):
                src = pool[ot.draw(len(pool))]
                as_bytes = ot.chance(25)
                r = src.clone()
                r.rid = src.rid
                if as_bytes:
                    r.text = r.text.encode("utf-8")
                batch.append((src, r, as_bytes))
            if k == 2 and batch[0][0].rid == batch[1][0].rid:
                # two in-flight copies of one request need distinct runtime ids
                pass
            sch = pick_scheduler(tape.sub("cfg_s%d" % step))
            reqs = [b[1] for b in batch]
            for j, r in enumerate(reqs):
                r.rid = batch[j][0].rid * 10 + j
            out = run_batch(engine, reqs, tape.sub("sched%d" % step), sch[0], sch[1], sch[2], None, k == 2, {})
            digests.append(run_digest(out.trace, out.events, [r.resp for r in reqs], repr(out.exc)))
            for (src, r, as_bytes) in batch:
                history.append((src.rid, as_bytes, k))
                want = fresh_response(src, as_bytes)
                if out.exc is not None or r.exc is not None:
                    viol.append(V("execute_raised", "step %d request %d: %r %r" % (step, src.rid, out.exc, r.exc), exc=type(r.exc or out.exc).__name__))
                    continue
                if isinstance(want, tuple):
                    viol.append(V("fresh_engine_failed", "fresh engine failed on request %d: %s" % (src.rid, want[1])))
                    continue
                viol.extend(check_envelope(r.resp, r.text))
                if src.plan is not None and not src.plan.refused:
                    for v in check_calls(src.plan, r.rt, strict=False):
                        v["detail"] = "step %d (cache %s, request %d %s): %s" % (step, cache, src.rid, src.label, v["detail"])
                        viol.append(v)
                if not same_response(r.resp, want):
                    viol.append(V("differs_from_fresh_engine", "step %d (cache %s, request %d %s%s): response differs from a fresh uncached "
                                  "engine: %s" % (step, cache, src.rid, src.label, " as bytes" if as_bytes else "", describe_diff(r.resp, want)),
                                  cache=cache))
            if viol:
                break
    finally:
        for n in names:
            forget(n)
    r0 = base_result(tape, out, viol)
    r0["digest"] = run_digest(digests)
    r0["case_digest"] = run_digest(sdl, history, [(x.text, x.op_name, x.variables) for x in pool])
    r0["evals"] = len(history)
    repeats = len(history) - len({(h[0], h[1]) for h in history})
    distinct_reqs = len({h[0] for h in history})
    r0["nontrivial"] = bool(not viol and distinct_reqs >= 2 and (repeats >= 1 or cache in ("none", "lossy")))
    r0["metrics"] = {"history_steps": len(history), "repeated_requests": repeats, "cache_" + cache: 1}
    if memo is not None:
        r0["metrics"].update({"memo_hits": memo.hits, "memo_misses": memo.misses})
    r0["faults"] = {"cache_entry_forgotten": memo.forgotten if memo is not None else 0, "lru512_flooded_past_capacity": flooded[0],
                    "flooded_with_4200_refused_documents": bigflooded[0]}
    for x in pool:
        if x.plan is not None:
            for k2, n in x.plan.faults_fired.items():
                r0["faults"][k2] = r0["faults"].get(k2, 0) + n
    labels = [x.label for x in pool]
    r0["probes"] = {
        "bytes_and_str_of_same_request": int(any((h[0], not h[1], 1) in history or (h[0], not h[1], 2) in history for h in history)),
        "invalid_after_valid_same_pool": int(any(":" in l and "faults" not in l for l in labels)),
        "concurrent_pair": int(any(h[2] == 2 for h in history)),
        "same_text_other_variables": int(len({x.text for x in pool}) < len(pool)),
    }
    if want_case or viol:
        r0["case"] = {"sdl": sdl, "engine_config": cfg, "cache": cache,
                      "pool": [x.render() for x in pool], "history": history}
        r0["trace"] = trace_tail(out) if out is not None else None
    return r0
