"""C07 -- documents breaking a supported validation rule are refused and nothing runs.

One run = one valid generated document; the rewrite catalogue (simv/gen/rewrites.py) corrupts it,
one rule and one site at a time, at every applicable node (thorough: all, quick: a seeded sample).
Every corrupted request must be answered with data null and a non-empty errors list, and the event
log of the run must contain no resolver, type-resolver or hook event."""
import copy

from simv.actors import forget
from simv.checks.common import COMMON_ASSUMPTIONS, base_result, exc_violation, pick_engine_cfg, trace_tail
from simv.gen.rewrites import TYPE_SYSTEM_SNIPPETS, enumerate_rewrites
from simv.harness import cook_engine, execute_once, gen_case, make_plan, pick_scheduler, run_digest
from simv.model.document import print_document
from simv.oracle import V, check_envelope
from simv.tape import Tape

ID = "C07"
LEVEL = "fault_enumeration"
QUICK_RUNS = 1200
CHUNK = 6
RULE = ("seed -> schema (with Mutation / Subscription roots), valid document, then every rewrite of the catalogue (one per "
        "supported rule and kind of site: operation, nested selection, fragment, inline fragment, directive argument, nested "
        "input value; plus type-system definitions appended to the text) applied at every applicable node - thorough: all "
        "(cap 400 per document), quick: seeded sample of 40. Oracle per corrupted request: data is null, errors non-empty, no "
        "resolver / type resolver / hook event in the log. evaluations = corrupted requests executed; non-trivial = refused "
        "request whose document was corrupted inside a nested selection, fragment or value (not at the top level); distinct = "
        "(document, rule, site).")
ASSUMPTIONS = COMMON_ASSUMPTIONS + [
    "each rewrite is only trusted to break the rule it is named after; nothing is asserted about error messages",
    "the engine does not implement field-selection merging (documented); no rewrite targets it",
]


def run_one(seed, preset=None, tier="quick", want_case=False):
    tape = Tape(seed, preset)
    cfgt = tape.sub("cfg")
    rt_ = tape.sub("rewrite")
    case = gen_case(tape, schema_knobs={"max_objects": 4, "subscription_pct": 40, "mutation_pct": 50},
                    doc_knobs={"max_depth": 3, "max_sel": 4, "max_ops": 2, "max_frags": 3,
                               "op_kinds": ("query", "mutation", "subscription")})
    cfg = pick_engine_cfg(cfgt)
    plan = make_plan(case, tape)
    rws = enumerate_rewrites(case.schema, case.doc)
    total = len(rws)
    limit = 40 if tier == "quick" else 400
    if len(rws) > limit:
        rws = rt_.shuffle(rws)[:limit]
    name = "%s_%d" % (ID, seed)
    viol, digests = [], []
    per_rule, sites = {}, {}
    out = None
    n_exec = 0
    nontrivial_n = 0
    try:
        engine = cook_engine(case.schema, name, cfg, sdl=case.sdl)
        sch = pick_scheduler(cfgt)
        jobs = [(rule, site, fn, None) for rule, site, _, fn in rws]
        for i, snip in enumerate(TYPE_SYSTEM_SNIPPETS if tier != "quick" else [TYPE_SYSTEM_SNIPPETS[rt_.draw(len(TYPE_SYSTEM_SNIPPETS))]]):
            jobs.append(("executable-definitions", "document", None, snip))
        for ji, (rule, site, fn, snip) in enumerate(jobs):
            if fn is not None:
                d2 = copy.deepcopy(case.doc)
                try:
                    fn(d2)
                except Exception as e:  # noqa: BLE001 -- a rewrite that does not apply is a harness matter
                    raise RuntimeError("rewrite %s/%s failed to apply: %r" % (rule, site, e))
                text = print_document(d2, case.layout)
            else:
                text = (snip + "\n" + case.text) if rt_.chance(50) else (case.text + "\n" + snip)
            out = execute_once(engine, text, case.op_name, case.variables, plan, tape.sub("sched%d" % ji),
                               sch[0], sch[1], sch[2], root_value=plan.root_value)
            n_exec += 1
            per_rule[rule] = per_rule.get(rule, 0) + 1
            sites[site.split("/")[0]] = sites.get(site.split("/")[0], 0) + 1
            digests.append(run_digest(out.events, out.resp, repr(out.exc)))
            vs = []
            if out.exc is not None:
                vs.append(exc_violation(out))
            else:
                vs.extend(check_envelope(out.resp, text))
                if out.resp.get("data") is not None:
                    vs.append(V("invalid_document_executed", "data is not null: %r" % (repr(out.resp.get("data"))[:200],), rule=rule))
                if not out.resp.get("errors"):
                    vs.append(V("invalid_document_no_errors", "no errors for a document breaking rule %s" % rule, rule=rule))
                ran = [e for e in out.events if e[1] in ("start", "finish", "type_resolve", "hook")]
                if ran:
                    vs.append(V("ran_although_invalid", "resolver / type resolver / hook events %r for a document breaking rule %s" % (
                        ran[:3], rule), rule=rule))
            for v in vs:
                v["detail"] = "[rule %s at %s] %s" % (rule, site, v["detail"])
                v["corrupted_document"] = text
                v["sig"]["rule"] = rule
                v["sig"]["site"] = site
                v["sig"]["where"] = site.split("/")[-1] if "/" in site else "selection"
                viol.append(v)
            if not vs and site not in ("document",) and not site.startswith("op"):
                nontrivial_n += 1
            if len(viol) > 4:
                break
    finally:
        forget(name)
    r = base_result(tape, out, viol)
    r["digest"] = run_digest(digests)
    r["case_digest"] = case.digest()
    r["evals"] = n_exec
    r["distinct_n"] = nontrivial_n
    r["nontrivial"] = bool(nontrivial_n and not viol)
    r["metrics"] = {"rewrites_available": total, "rewrites_executed": n_exec}
    r["faults"] = {"rule:" + k: v for k, v in per_rule.items()}
    r["probes"] = {"site:" + k: v for k, v in sites.items()}
    if viol:
        from simv.model.document import doc_to_json
        r["doc_model"] = doc_to_json(case.doc)
    if want_case or viol:
        c = case.render()
        c["engine_config"] = cfg
        c["rewrites_executed"] = [(rule, site) for rule, site, _, _ in jobs[:60]]
        c["corrupted_documents"] = [v.get("corrupted_document") for v in viol[:3]]
        r["case"] = c
        r["trace"] = trace_tail(out) if out is not None else None
    return r
