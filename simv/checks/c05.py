"""C05 -- field and directive arguments reach resolvers spec-coerced; literal = variable = default.

One run = one argument type and one value, written several ways in aliases of one request:
literal, variable, variable nested inside list / object literals, identical schema default
(argument omitted / variable without runtime value), omitted, explicit null, plus a sibling whose
non-null argument receives a runtime null.  Oracles: the reference CoerceArgumentValues (through
the reference executor) and the metamorphic equality of the recorded argument dictionaries."""
from simv.actors import forget
from simv.checks.common import COMMON_ASSUMPTIONS, base_result, exc_violation, pick_engine_cfg, trace_tail
from simv.gen.schema import gen_schema, gen_wrappers
from simv.gen.values import gen_literal, lit_to_json
from simv.harness import Case, cook_engine, execute_once, make_plan, pick_scheduler, run_digest
from simv.model.document import Document, Field, Operation, print_document
from simv.model.schema import ABSENT, ArgDef, FieldDef, N, NN, is_nn, nullable, print_sdl, value_str
from simv.oracle import V, check_against_plan, check_envelope, same
from simv.tape import Tape

ID = "C05"
LEVEL = "exploration"
QUICK_RUNS = 6000
CHUNK = 40
RULE = ("seed -> input type TY (every input type x wrappers to depth 3) and a value S; schema fields f(x: TY), g(x: TY = S), "
        "h(x: TY!); request with aliases lit: f(x: S), var: f(x: $v), nested: f(x: S with sub-values replaced by variables), "
        "def: g, defvar: g(x: $absent), omitted: f, null spellings, second argument alongside, and hn: h(x: $n) where $n is a "
        "nullable variable with default given a runtime null (must fail that field only). Oracle: every recorded argument dict == "
        "reference CoerceArgumentValues; lit == var == nested == def == defvar (metamorphic); absent != null; field-only failure "
        "with siblings intact. Non-trivial = >= 3 spellings delivered and compared; distinct = (TY, S) digest.")
ASSUMPTIONS = COMMON_ASSUMPTIONS


def inject_vars(schema, ty, lit, t, newvar, depth=0):
    """Replace some sub-values of a literal by variables of exactly the position's type."""
    if lit[0] == "var":
        return lit
    if depth > 0 and t.chance(35):
        return newvar(ty, lit)
    inner = nullable(ty)
    if lit[0] == "list" and inner[0] == "L":
        return ("list", [inject_vars(schema, inner[1], x, t, newvar, depth + 1) for x in lit[1]])
    if lit[0] == "obj" and inner[0] == "N" and schema.kind_of(inner[1]) == "INPUT_OBJECT":
        td = schema.types[inner[1]]
        return ("obj", [(fn, inject_vars(schema, td.fields[fn].type, fv, t, newvar, depth + 1)) for fn, fv in lit[1]])
    return lit


TEMPORAL_TEXTS = ["2020-02-03T04:05:06", "2020-02-03", "04:05:06", "2020-02-03 04:05:06", "2020-02-03T04:05:06.250", "2020-02-03T04:05:06+02:00",
                  "2020-02-03T04:05:06Z", "20200203T040506", "2020-2-3", "4:5:6", "04:05", "2020-02-30", "24:00:00", "", "now", " 2020-02-03 ",
                  "2020-02-03T04:05", "0001-01-01", "9999-12-31T23:59:59"]


def builtin_temporal_scalars(seed):
    """The engine's own Date / Time / DateTime scalars as argument types: whatever they accept, the same text written
    as a literal and passed through a variable is either delivered as the same value both ways or refused both ways
    (no model of the formats is needed for 'literal = variable')."""
    from simv.actors import forget
    from simv.oracle import V
    from simv.simloop import SimLoop, run_sim
    from tartiflette import Resolver, create_engine
    name = "C05_%d_temporal" % seed
    seen = {}

    for fld in ("d", "t", "dt"):
        def make(fld=fld):
            async def res(parent, args, ctx, info):
                seen[ctx["k"]] = repr(args.get("v"))
                return "ok"
            return res
        Resolver("Query.%s" % fld, schema_name=name)(make())
    out = []
    try:
        loop = SimLoop(Tape(seed).sub("temporal"), "fifo", 0, "none")
        engine = run_sim(loop, create_engine("type Query { d(v: Date): String t(v: Time): String dt(v: DateTime): String }", schema_name=name))
        import json as _json
        for fld, ty in (("d", "Date"), ("t", "Time"), ("dt", "DateTime")):
            for text in TEMPORAL_TEXTS:
                results = {}
                for spelling in ("literal", "variable"):
                    k = (fld, text, spelling)
                    if spelling == "literal":
                        q, v = "{ %s(v: %s) }" % (fld, _json.dumps(text)), None
                    else:
                        q, v = "query($v: %s) { %s(v: $v) }" % (ty, fld), {"v": text}
                    lp = SimLoop(Tape(seed).sub("temporal_run"), "fifo", 0, "none")
                    resp = run_sim(lp, engine.execute(q, variables=v, context={"k": k}))
                    results[spelling] = seen.get(k) if (isinstance(resp, dict) and not resp.get("errors")) else "<refused>"
                if results["literal"] != results["variable"]:
                    out.append(V("literal_differs_from_variable", "built-in scalar %s, text %r: as a literal %s, through a variable %s" % (
                        ty, text, results["literal"], results["variable"]), scalar=ty))
                    break
    finally:
        forget(name)
    return out[:3]


def run_one(seed, preset=None, tier="quick", want_case=False):
    tape = Tape(seed, preset)
    cfgt = tape.sub("cfg")
    vt = tape.sub("vars")
    schema = gen_schema(tape, {"max_objects": 2, "max_interfaces": 0, "max_unions": 0, "max_fields": 2, "mutation_pct": 0})
    q = schema.t("Query")
    input_types = ["Int", "Float", "String", "Boolean", "ID"] + [n for n, td in schema.types.items()
                                                                  if td.kind in ("ENUM", "INPUT_OBJECT") or (td.kind == "SCALAR" and td.custom)]
    base = vt.choose(input_types)
    ty = gen_wrappers(vt, base, 3)
    S = gen_literal(schema, ty, vt, 12)
    ty2 = gen_wrappers(vt, vt.choose(input_types), 2)
    S2 = gen_literal(schema, ty2, vt, 12)

    def mk(name, args):
        fd = FieldDef(name, N("Int"), args)
        fd.impl = "resolver"
        fd.ac = vt.choose([None, "gather", "sync"])
        q.fields[name] = fd

    mk("f", {"x": ArgDef("x", ty)})
    mk("g", {"x": ArgDef("x", ty, S)})
    mk("h", {"x": ArgDef("x", NN(nullable(ty)))})
    mk("two", {"x": ArgDef("x", ty), "y": ArgDef("y", ty2, S2 if vt.chance(50) else ABSENT)})
    vardefs = [("v", ty, ABSENT), ("absent", nullable(ty), ABSENT)]
    raw = {"v": lit_to_json(S)}
    nested_vars = []

    def newvar(pty, lit):
        name = "n%d" % len(nested_vars)
        nested_vars.append(name)
        vardefs.append((name, pty, ABSENT))
        raw[name] = lit_to_json(lit)
        return ("var", name)

    nested = inject_vars(schema, ty, S, vt, newvar)
    sels = [
        Field("f", "lit", [("x", S)]),
        Field("f", "var", [("x", ("var", "v"))]),
        Field("g", "def", []),
        Field("g", "defvar", [("x", ("var", "absent"))]),
        Field("f", "omitted", []) if not is_nn(ty) else Field("__typename", "omitted"),
        Field("two", "two", [("y", S2), ("x", ("var", "v"))] if (vt.chance(50) or (is_nn(ty2) and q.fields["two"].args["y"].default is ABSENT))
              else ([("x", S)] if S[0] != "null" or not is_nn(ty) else [("x", ("var", "v"))])),
    ]
    spellings = ["lit", "var", "def", "defvar"]
    if nested_vars:
        sels.insert(2, Field("f", "nested", [("x", nested)]))
        spellings.append("nested")
    if not is_nn(ty):
        sels.append(Field("f", "nulllit", [("x", ("null",))]))
        vardefs.append(("nul", ty, ABSENT))
        raw["nul"] = None
        sels.append(Field("f", "nullvar", [("x", ("var", "nul"))]))
    # runtime null for a non-null argument: nullable variable with a default, explicit null at run time
    if S[0] != "null":
        vardefs.append(("n", nullable(ty), S))
        raw["n"] = None
        sels.append(Field("h", "hn", [("x", ("var", "n"))]))
        sels.append(Field("h", "hok", [("x", S)]))
    # a nullable variable (legal through its default) nested at a non-null position, null at run time:
    # that field must fail, the others must not
    mk("lst", {"x": ArgDef("x", ("L", NN(N("Int"))))})
    mk("obj", {"x": ArgDef("x", N("NestIn"))})
    from simv.model.schema import InputDef
    schema.add(InputDef("NestIn", {"y": ArgDef("y", NN(N("Int"))), "z": ArgDef("z", N("Int"))}))
    vardefs.append(("nn", N("Int"), ("int", 1)))
    raw["nn"] = None
    sels.append(Field("lst", "nestednull_list", [("x", ("list", [("int", 5), ("var", "nn")]))]))
    sels.append(Field("obj", "nestednull_obj", [("x", ("obj", [("y", ("var", "nn")), ("z", ("int", 2))]))]))
    sels.append(Field("lst", "nested_ok", [("x", ("list", [("int", 5), ("int", 6)]))]))
    if vt.chance(40):
        sels = vt.shuffle(sels)
    op = Operation("query", "Q", vardefs, sels)
    case = Case()
    case.schema, case.doc = schema, Document([op])
    case.sdl = print_sdl(schema)
    case.layout = vt.draw(3)
    case.text = print_document(case.doc, case.layout)
    case.op, case.op_name, case.variables = op, None, raw
    cfg = pick_engine_cfg(cfgt)
    sched = pick_scheduler(cfgt)
    plan = make_plan(case, tape)
    name = "%s_%d" % (ID, seed)
    try:
        engine = cook_engine(schema, name, cfg, sdl=case.sdl)
        out = execute_once(engine, case.text, None, raw, plan, tape.sub("sched"), sched[0], sched[1], sched[2],
                           root_value=plan.root_value)
        out_again = None
        if seed % 3 == 0 and out.exc is None:
            # the same request once more on the same engine, after the application consumed (mutated) the argument
            # dictionaries of the first one: literals, variable values and DEFAULTS are coerced per request
            out_again = execute_once(engine, case.text, None, raw, plan, tape.sub("sched_again"), sched[0], sched[1], sched[2],
                                     root_value=plan.root_value)
        out_huge = None
        if base == "Float":
            # a literal no IEEE double can hold: never delivered (refused, or that field fails)
            lit = "1e999" if vt.chance(50) else "-1e999"
            inner = nullable(ty)
            depth = 0
            while inner[0] == "L":
                depth += 1
                inner = nullable(inner[1])
            huge_text = "{ huge: f(x: %s%s%s) }" % ("[" * depth, lit, "]" * depth)
            out_huge = execute_once(engine, huge_text, None, None, None, tape.sub("sched_huge"), sched[0], sched[1], sched[2])
    finally:
        forget(name)
    viol = []
    if out_huge is not None:
        if out_huge.exc is not None:
            viol.append(exc_violation(out_huge))
        else:
            viol.extend(check_envelope(out_huge.resp, huge_text))
            if out_huge.rt.calls:
                viol.append(V("non_finite_float_delivered", "the literal %s reached the resolver as %r" % (lit, out_huge.rt.calls[0][3]), literal="1e999"))
            elif not out_huge.resp.get("errors"):
                viol.append(V("non_finite_float_delivered", "the literal %s produced no error: %r" % (lit, out_huge.resp), literal="1e999"))
    compared = 0
    if out.exc is not None:
        viol.append(exc_violation(out))
    else:
        viol.extend(check_envelope(out.resp, case.text))
        viol.extend(check_against_plan(case, plan, out.resp, out.rt, out.events))
        if out_again is not None and not viol:
            if out_again.exc is not None:
                viol.append(exc_violation(out_again))
            else:
                for v_ in check_against_plan(case, plan, out_again.resp, out_again.rt, out_again.events):
                    v_["sig"]["call"] = "same request again after its arguments were consumed"
                    v_["detail"] = "[second execution of the same request] " + v_["detail"]
                    viol.append(v_)
        got = {c[0][0]: c[3] for c in out.rt.calls}
        have = [s for s in spellings if s in got]
        compared = len(have)
        for s in have[1:]:
            if not same(got[s], got[have[0]], ordered=False):
                viol.append(V("spellings_differ", "the same value %s delivered as %r when written as %s but %r as %s" % (
                    value_str(S), got[have[0]], have[0], got[s], s), a=have[0], b=s))
        if "omitted" in got and "nulllit" in got and same(got["omitted"], got["nulllit"], ordered=False):
            viol.append(V("absent_equals_null", "omitted argument and explicit null deliver the same dictionary %r" % (got["omitted"],)))
    r = base_result(tape, out, viol)
    r["digest"] = run_digest(out.trace, out.events, out.resp, repr(out.exc))
    r["case_digest"] = run_digest(str(ty), value_str(S))
    r["nontrivial"] = bool(not viol and compared >= 3)
    r["sched_kinds"] = {sched[0] + ("+eager" if sched[2].endswith("+eager") else ""): 1}
    r["metrics"] = {"spellings_compared": compared}
    r["probes"] = {"nested_variable_spelling": int(bool(nested_vars)), "runtime_null_for_non_null_argument": int(S[0] != "null"),
                   "value_is_null": int(S[0] == "null"), "input_object_value": int(S[0] == "obj"), "list_value": int(S[0] == "list"),
                   "single_value_for_list": int(nullable(ty)[0] == "L" and S[0] not in ("list", "null")),
                   "float_literal_beyond_ieee": int(out_huge is not None),
                   "same_request_again_after_arguments_consumed": int(out_again is not None)}
    r["faults"] = {"runtime_null_for_non_null_argument": int(S[0] != "null")}
    if seed % 25 == 0:
        bv = builtin_temporal_scalars(seed)
        r["probes"]["builtin_date_time_scalars_literal_vs_variable"] = 1
        if bv:
            viol.extend(bv)
            r["viol"] = viol
            r["nontrivial"] = False
            r.setdefault("tape", tape.snapshot())
    if want_case or viol:
        c = case.render()
        c["engine_config"] = cfg
        c["response"] = repr(out.resp)[:2000]
        c["resolver_args"] = [repr((list(p), a)) for p, _, _, a, _, _ in out.rt.calls]
        c["expected_args"] = [repr((list(cl.path), cl.args, cl.arg_error)) for cl in plan.calls]
        r["case"] = c
        r["trace"] = trace_tail(out)
    return r
