"""Pieces shared by the per-property checks."""
from simv import boot  # noqa: F401
from simv.actors import forget
from simv.harness import cook_engine, execute_once, gen_case, make_plan, pick_scheduler, run_digest
from simv.oracle import V, check_against_plan, check_envelope
from simv.simloop import SimDeadlock, SimStepCap
from simv.tape import Tape

COMMON_ASSUMPTIONS = [
    "libgraphqlparser.so is absent: queries are parsed by simv/gqlstub.py (same JSON AST format); nothing is claimed about the C parser",
    "asyncio semantics as documented (FIFO call_soon, completions delivered between callbacks); SimLoop replaces the selector loop",
    "the sequential reference executor (simv/model/exec.py, simv/model/coerce.py) is a faithful transcription of the June-2018 spec",
    "sampling within the generator bounds of DESIGN.md section 4; a clean batch is evidence, not proof",
]


def pick_engine_cfg(t):
    return dict(
        lc=t.choose([None, True, False]),
        pc=t.choose([None, True, False]),
        ac=t.choose([None, "gather", "sync"]),
        type_as_object=t.chance(30),
        **pick_build_cfg(t),
    )


def pick_build_cfg(t):
    """Ways of constructing the engine that the documentation declares equivalent (own stream, so that
    the other choices of a seed are unaffected; all-zero draws give create_engine with built-in defaults)."""
    from simv.tape import SubTape
    b = SubTape(t.t, t.s + ".build") if hasattr(t, "t") else t
    return dict(
        build=b.weighted([(4, "create_engine"), (2, "ctor"), (2, "cook_args"), (2, "split"), (1, "cook_twice")]),
        dr=b.chance(30), dtr=b.chance(30), ec=b.chance(20), jl=b.chance(20), sdl_file=b.chance(15),
        sdl_spell=(1 + b.draw(5000)) if b.chance(25) else 0,
        atr=b.chance(25),  # some type resolvers written as `async def` (the form the documentation shows)
    )


def build_probes(cfg, out, engine=None):
    p = {"engine_built_by_" + (cfg.get("build") or "create_engine"): 1}
    for k, label in (("dr", "custom_default_resolver"), ("dtr", "custom_default_type_resolver"), ("ec", "identity_error_coercer"),
                     ("jl", "custom_json_loader"), ("sdl_file", "sdl_from_file"), ("sdl_spell", "sdl_respelt"), ("atr", "async_type_resolvers")):
        if cfg.get(k):
            p["engine_with_" + label] = 1
    rt = getattr(out, "rt", None)
    if rt is not None:
        if rt.default_calls:
            p["custom_default_resolver_calls"] = len(rt.default_calls)
        if rt.default_type_calls:
            p["custom_default_type_resolver_calls"] = rt.default_type_calls
    return p


def sdl_refusal_kind(msg):
    """Coarse class of a schema-build refusal (used to tell one known defect from another)."""
    import re
    if "should be of Type" in msg and "as defined in the" in msg:
        return "interface_field_type_covariance"
    if "Interface" in msg and "rgument" in msg:
        return "interface_field_arguments"
    return re.sub(r"<[^>]*>", "<>", msg)[:60]


def matches_deviation_plan(alt, resp, rt):
    """The response and the set of resolver calls are exactly those of the alternative plan (object
    identities aside: the actors served the objects of the primary plan)."""
    from simv.oracle import same
    if alt.refused or not isinstance(resp, dict) or not same(resp.get("data"), alt.data):
        return False
    got = sorted(tuple(e.get("path") or ()) for e in (resp.get("errors") or []) if isinstance(e, dict))
    want = sorted(tuple(e.path) for e in alt.errors)
    if set(got) != set(want):
        return False
    from simv.oracle import ROOT, _is_prefix, visible_nulls
    called = [c[0] for c in rt.calls]
    planned = {c.path for c in alt.calls if c.args is not None}
    if len(set(called)) != len(called) or not set(called) <= planned:
        return False
    # calls the engine did not make must lie under a position the plan nulls anyway (as in check_calls)
    nulls = visible_nulls(alt)
    for path in planned - set(called):
        if not any(q == ROOT or (q != path and _is_prefix(q, path)) for q in nulls):
            return False
    return True


def exc_violation(out):
    if isinstance(out.exc, (SimDeadlock, SimStepCap)):
        return V("no_termination", "execute did not terminate: %r (parked=%d)" % (out.exc, len(out.rt.loop.parked)),
                 kind=type(out.exc).__name__)
    return V("execute_raised", "execute raised %r" % (out.exc,), exc=type(out.exc).__name__)


def base_result(tape, out=None, viol=None, **kw):
    r = {
        "viol": viol or [],
        "nontrivial": False,
        "faults": {},
        "probes": {},
        "metrics": {},
        "sched_kinds": {},
    }
    if out is not None:
        r.update(vsec=out.vsec, releases=out.releases, multi_choice=out.multi_choice, order=out.order)
    r.update(kw)
    if r["viol"]:
        r["tape"] = tape.snapshot()
        for k, v in (tape.preset or {}).items():
            if k.startswith("@"):
                r["tape"][k] = v
    return r


def trace_tail(out, n=60):
    return [list(map(str, x)) for x in out.trace[-n:]]


def run_single(prop, seed, preset, want_case, schema_knobs=None, doc_knobs=None, vars_knobs=None,
               faults_fn=None, plan_knobs=None, strict_calls=True, extra_check=None, doc_post=None, pick_op=None, post_engine=None):
    """Generate one request, plan it with the reference executor, run it on the real engine under
    a seeded schedule and compare.  faults_fn(case, tape, fault_free_plan) -> {path: kind}."""
    tape = Tape(seed, preset)
    cfgt = tape.sub("cfg")
    if callable(schema_knobs):
        schema_knobs = schema_knobs(tape.sub("knobs"))
    if callable(doc_knobs):
        doc_knobs = doc_knobs(tape.sub("knobs"))
    case = gen_case(tape, schema_knobs, doc_knobs, vars_knobs, doc_post)
    if pick_op is not None:
        pick_op(case, tape)
    cfg = pick_engine_cfg(cfgt)
    sched = pick_scheduler(cfgt)
    faults = None
    plan = make_plan(case, tape, None, knobs=plan_knobs)
    if faults_fn is not None:
        faults = faults_fn(case, tape, plan)
        if faults:
            base_plan = plan
            t2 = Tape(seed, preset)
            plan = make_plan(case, t2, faults, knobs=plan_knobs, base=base_plan)
            plan.base = base_plan
            for k, v in t2.used.items():
                if k.startswith("data") and len(v) > len(tape.used.get(k, ())):
                    tape.used[k] = v
    name = "%s_%d" % (prop, seed)
    try:
        try:
            engine = cook_engine(case.schema, name, cfg, sdl=case.sdl)
        except Exception as e:  # noqa: BLE001
            # the generated SDL is valid by construction: the engine has to build it
            msg = " ".join(str(e).split())
            r = base_result(tape, None, [V("valid_sdl_refused", "cooking the (valid) SDL failed: %s: %s" % (type(e).__name__, msg[:300]),
                                           kind=sdl_refusal_kind(msg))])
            r["digest"] = run_digest([], [], None, repr(type(e)))
            r["case_digest"] = case.digest()
            r["case"] = case.render()
            r["case"]["engine_config"] = cfg
            r["_plan"], r["_case"], r["_out"] = plan, case, None
            r["early"] = True
            return r
        out = execute_once(engine, case.text, case.op_name, case.variables, plan, tape.sub("sched"),
                           sched[0], sched[1], sched[2], root_value=plan.root_value)
        post_viol = post_engine(engine, case, plan, tape, out) if (post_engine is not None and out.exc is None) else []
    finally:
        forget(name)
    viol = list(post_viol)
    if out.exc is not None:
        viol.append(exc_violation(out))
    else:
        viol.extend(check_envelope(out.resp, case.text))
        pv = check_against_plan(case, plan, out.resp, out.rt, out.events, strict_calls)
        if pv and plan.probes.get("if_null_on_skip"):
            # recorded deviation (known_findings.json): a selection whose @skip `if` is a null variable is
            # dropped instead of kept.  Only a response that equals, in every respect, the plan computed
            # with that one deviation is attributed to it; anything else is reported as it is.
            alt_knobs = dict(plan_knobs or {}, skip_null_excludes=True, reuse_results=plan.results)
            alt = make_plan(case, Tape(seed, preset), faults, knobs=alt_knobs, base=getattr(plan, "base", None) or plan,
                            root_value=plan.root_value)
            # (the deviation plan shares the primary plan's resolver results and root value, so the ordinary
            # plan check applies to it unchanged: data, error accounting incl. doomed positions, calls, parents)
            if not check_against_plan(case, alt, out.resp, out.rt, out.events, strict_calls):
                pv = [V("data_mismatch", "a selection carrying @skip(if: $v) with $v null (nullable variable with a default, explicit "
                        "null given) was dropped without an error; CollectFields keeps it: " + (pv[0]["detail"] if isinstance(pv[0], dict) else str(pv[0]))[:300],
                        kind="skip_if_null_selection_dropped")]
        viol.extend(pv)
        if out.tasks_alive or out.parked_left:
            viol.append(V("work_left_behind", "%d tasks alive, %d gates parked when execute returned" % (
                out.tasks_alive, out.parked_left)))
        if extra_check is not None:
            viol.extend(extra_check(case, plan, out))
    r = base_result(tape, out, viol)
    r["digest"] = run_digest(out.trace, out.events, out.resp, repr(out.exc))
    r["case_digest"] = case.digest()
    r["sched_kinds"] = {sched[0] + ("+eager" if sched[2].endswith("+eager") else ""): 1}
    r["faults"] = dict(plan.faults_fired)
    probes = dict(getattr(case.doc, "probes", {}))
    for k, v in plan.probes.items():
        probes[k] = probes.get(k, 0) + v
    probes.update(build_probes(cfg, out, engine))
    if cfg.get("jl") and out.exc is None and isinstance(out.resp, dict) and "data" in out.resp and not engine._simv_jl[0]:
        r["viol"].append(V("json_loader_not_used", "the request was parsed and executed without the engine's json_loader being called"))
    r["probes"] = probes
    r["metrics"] = {
        "field_instances": plan.instances,
        "resolver_calls": len(out.rt.calls),
        "expected_errors": len(plan.errors),
        "refused": int(plan.refused),
        "max_parked": out.max_parked,
    }
    r["_plan"] = plan
    r["_case"] = case
    r["_out"] = out
    if viol:
        from simv.model.document import doc_to_json
        r["doc_model"] = doc_to_json(case.doc)
    if want_case or viol:
        c = case.render()
        c["engine_config"] = cfg
        c["scheduler"] = {"kind": sched[0], "busy_pct": sched[1], "point_mode": sched[2]}
        c["faults"] = {repr(list(k)): v for k, v in (faults or {}).items()}
        c["expected_data"] = repr(plan.data)[:3000]
        c["expected_errors"] = [repr(e) for e in plan.errors[:20]]
        c["response"] = repr(out.resp)[:3000]
        r["case"] = c
        r["trace"] = trace_tail(out)
    return r


def strip_private(r):
    for k in ("_plan", "_case", "_out"):
        r.pop(k, None)
    return r
