"""Bootstrap: make the *current working tree* of the repository importable with the parser stub.

Imported first by every entry point.  VERIF_REPO (default /repo) is put at the front of sys.path,
the cffi dlopen patch is installed, and only then is ``tartiflette`` imported.
"""
import os
import sys

REPO = os.environ.get("VERIF_REPO", "/repo")
VERIF = os.path.dirname(os.path.dirname(os.path.abspath(__file__)))
sys.dont_write_bytecode = True
if VERIF not in sys.path:
    sys.path.insert(0, VERIF)
if sys.path[0] != REPO:
    sys.path.insert(0, REPO)

from simv import gqlstub  # noqa: E402

gqlstub.install()

import tartiflette  # noqa: E402,F401

assert os.path.realpath(os.path.dirname(os.path.dirname(tartiflette.__file__))) == os.path.realpath(REPO), (
    "tartiflette imported from %s, expected %s" % (tartiflette.__file__, REPO)
)


def repo_head():
    import subprocess

    try:
        return subprocess.run(
            ["git", "-C", REPO, "rev-parse", "--short", "HEAD"], capture_output=True, text=True, timeout=10
        ).stdout.strip()
    except Exception:  # pragma: no cover
        return "unknown"
