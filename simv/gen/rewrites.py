"""Catalogue of rule-breaking rewrites of a valid document (C07): corruptions of the client's
message, one family per supported validation rule, enumerated at every applicable node.

enumerate_rewrites(schema, doc) -> [(rule, site_kind, site_index, apply_fn)], where
apply_fn(doc_copy) mutates a deep copy of the document (nodes are addressed by traversal index).
Each rewrite is only trusted to produce a document that breaks the named rule."""
import copy

from simv.model.document import Document, Field, Fragment, Inline, Operation, Spread
from simv.model.schema import ABSENT, DirUse, L, N, NN, named, is_nn


def walk(schema, doc):
    """Yield (node, parent_type, owner, ctx) for every selection node; ctx in op|nested|fragment|inline."""
    out = []

    def rec(sels, parent, owner, ctx, container):
        for i, s in enumerate(sels):
            out.append((s, parent, owner, ctx, container, i))
            if s.kind == "field":
                if s.sels is not None:
                    if s.name.startswith("__"):
                        continue
                    fd = schema.fields_of(parent).get(s.name) if schema.kind_of(parent) in ("OBJECT", "INTERFACE") else None
                    if fd is not None:
                        rec(s.sels, named(fd.type), owner, "nested" if ctx == "op" else ctx, s)
            elif s.kind == "inline":
                rec(s.sels, s.cond or parent, owner, "inline", s)

    for d in doc.defs:
        if d.kind == "operation":
            root = {"query": schema.query, "mutation": schema.mutation, "subscription": schema.subscription}[d.op]
            rec(d.sels, root, d, "op", d)
        else:
            rec(d.sels, d.cond, d, "fragment", d)
    return out


def _wrong_literal(schema, ty):
    """A literal that is definitely not acceptable for input type ty (and is not null / a variable)."""
    inner = ty[1] if is_nn(ty) else ty
    if inner[0] == "L":
        bad = _wrong_literal(schema, inner[1])
        return ("list", [bad])
    name = inner[1]
    if name == "Int":
        return ("str", "abc")
    if name == "Float":
        return ("str", "1.5")
    if name == "String":
        return ("int", 5)
    if name == "Boolean":
        return ("int", 1)
    if name == "ID":
        return ("bool", True)
    td = schema.types[name]
    if td.kind == "ENUM":
        return ("enum", "NOT_A_VALUE")
    if td.kind == "SCALAR":
        return ("bool", True)
    return ("obj", [("notAField", ("int", 1))])


def _wrong_literal_variants(schema, ty):
    """Several literals of different kinds, none acceptable for input type ty: [(label, literal)]."""
    inner = ty[1] if is_nn(ty) else ty
    if inner[0] == "L":
        return [(lab, ("list", [bad])) for lab, bad in _wrong_literal_variants(schema, inner[1])[:2]]
    name = inner[1]
    if name == "Int":
        return [("float", ("float", 1.5)), ("numeric-string", ("str", "12")), ("bool", ("bool", True)), ("too-big", ("int", 2 ** 31))]
    if name == "Float":
        return [("bool", ("bool", False)), ("enum-name", ("enum", "abc"))]
    if name == "String":
        return [("enum-name", ("enum", "abc")), ("bool", ("bool", True)), ("float", ("float", 0.5))]
    if name == "Boolean":
        return [("string-true", ("str", "true")), ("enum-name", ("enum", "TRUE")), ("zero", ("int", 0))]
    if name == "ID":
        return [("float", ("float", 1.5)), ("enum-name", ("enum", "abc"))]
    td = schema.types[name]
    if td.kind == "ENUM":
        v0 = td.names()[0]
        return [("string-spelling-a-value", ("str", v0)), ("int", ("int", 1)), ("bool", ("bool", True)),
                ("wrong-case", ("enum", v0.swapcase() if v0.swapcase() not in td.names() else "NOT_A_VALUE"))]
    if td.kind == "SCALAR":
        return [("enum-name", ("enum", "abc"))]
    return [("int-for-object", ("int", 1)), ("string-for-object", ("str", "{}"))]


def _value_sites(schema, ty, lit, path=()):
    """Positions inside a literal where a wrong nested value can be planted: yields (path, type)."""
    if lit[0] in ("var", "null"):
        return
    yield path, ty
    inner = ty[1] if is_nn(ty) else ty
    if inner[0] == "L":
        if lit[0] == "list":
            for i, x in enumerate(lit[1]):
                yield from _value_sites(schema, inner[1], x, path + (i,))
        return
    td = schema.types.get(inner[1])
    if td is not None and td.kind == "INPUT_OBJECT" and lit[0] == "obj":
        for i, (fn, fv) in enumerate(lit[1]):
            if fn in td.fields:
                yield from _value_sites(schema, td.fields[fn].type, fv, path + (i,))


def _replace_at(lit, path, new):
    if not path:
        return new
    if lit[0] == "list":
        items = list(lit[1])
        items[path[0]] = _replace_at(items[path[0]], path[1:], new)
        return ("list", items)
    fields = list(lit[1])
    fn, fv = fields[path[0]]
    fields[path[0]] = (fn, _replace_at(fv, path[1:], new))
    return ("obj", fields)


def _get_at(lit, path):
    for p in path:
        lit = lit[1][p] if lit[0] == "list" else lit[1][p][1]
    return lit


def _reaching_ops(doc, owner):
    """Indices (among doc.operations()) of the operations whose selections reach `owner` (an
    Operation or a Fragment) directly or through fragment spreads."""
    frs = doc.fragments()

    def spreads(sels, acc):
        for s in sels:
            if s.kind == "spread":
                acc.add(s.name)
            elif s.kind == "inline" or (s.kind == "field" and s.sels):
                spreads(s.sels, acc)
        return acc

    out = []
    for oi, op in enumerate(doc.operations()):
        if op is owner:
            out.append(oi)
            continue
        seen, stack = set(), list(spreads(op.sels, set()))
        while stack:
            n = stack.pop()
            if n in seen or n not in frs:
                continue
            seen.add(n)
            stack.extend(spreads(frs[n].sels, set()))
        if owner.kind == "fragment" and owner.name in seen:
            out.append(oi)
    return out


def _incompatible_var_type(schema, ty):
    """An input type no value of which may flow into a position of type ty."""
    inner = ty[1] if is_nn(ty) else ty
    if inner[0] == "L":
        return N("Boolean")  # a non-list variable in a list position
    return L(N("Boolean")) if inner[1] == "Boolean" else (N("Boolean") if inner[1] != "Boolean" else N("Int"))


def enumerate_rewrites(schema, doc):
    rw = []
    nodes = walk(schema, doc)

    def add(rule, site, fn):
        rw.append((rule, site, len(rw), fn))

    def node_at(d2, idx):
        return walk(schema, d2)[idx]

    ops = doc.operations()
    frs = [d for d in doc.defs if d.kind == "fragment"]

    for idx, (s, parent, owner, ctx, container, ci) in enumerate(nodes):
        pk = schema.kind_of(parent)
        site = ctx
        # --- fields exist / leaf selections -------------------------------------------------
        def ins_unknown(d2, idx=idx):
            n = node_at(d2, idx)
            n[4].sels.insert(n[5], Field("nopeField"))
        add("fields-exist", site, ins_unknown)

        def ins_unknown_meta(d2, idx=idx):
            # names beginning with two underscores are reserved for introspection: only the three
            # meta-fields exist
            n = node_at(d2, idx)
            n[4].sels.insert(n[5], Field("__nopeMeta"))
        add("fields-exist", site + "/reserved-name", ins_unknown_meta)
        def tn_bad_arg(d2, idx=idx):
            # __typename takes no argument, whatever the parent (object, interface, union)
            n = node_at(d2, idx)
            n[4].sels.insert(n[5], Field("__typename", "tnBadArg", [("bogus", ("int", 1))]))
        add("known-argument", site + "/__typename-on-" + str(pk).lower(), tn_bad_arg)

        def tn_sel(d2, idx=idx):
            n = node_at(d2, idx)
            n[4].sels.insert(n[5], Field("__typename", "tnSel", [], [], [Field("__typename")]))
        add("leaf-selection-on-scalar", site + "/__typename-on-" + str(pk).lower(), tn_sel)
        if not (ctx == "op" and getattr(owner, "op", None) == "query") and parent != schema.query:
            def ins_schema_below_root(d2, idx=idx):
                # __schema / __type are fields of the query root type only
                n = node_at(d2, idx)
                n[4].sels.insert(n[5], Field("__schema", None, [], [], [Field("queryType", None, [], [], [Field("name")])]))
            add("fields-exist", site + "/__schema-not-on-query-root", ins_schema_below_root)
        if s.kind == "field" and not s.name.startswith("__") and pk in ("OBJECT", "INTERFACE"):
            fd = schema.fields_of(parent).get(s.name)
            if fd is None:
                continue
            if s.sels is None:
                def leaf_sel(d2, idx=idx):
                    node_at(d2, idx)[0].sels = [Field("__typename")]
                add("leaf-selection-on-scalar", site, leaf_sel)
            else:
                def no_sel(d2, idx=idx):
                    node_at(d2, idx)[0].sels = None
                add("composite-without-selection", site, no_sel)
            # --- arguments -----------------------------------------------------------------
            def unk_arg(d2, idx=idx):
                node_at(d2, idx)[0].args.append(("nopeArg", ("int", 1)))
            add("known-argument", site, unk_arg)
            if s.args:
                def dup_arg(d2, idx=idx):
                    n = node_at(d2, idx)[0]
                    n.args.append(n.args[0])
                add("unique-argument", site, dup_arg)
            given = dict(s.args)
            for an, ad in fd.args.items():
                if is_nn(ad.type) and an in given:
                    def null_req(d2, idx=idx, an=an):
                        n = node_at(d2, idx)[0]
                        n.args = [(a, ("null",) if a == an else v) for a, v in n.args]
                    add("value-of-correct-type", site + "/null-for-non-null-argument", null_req)
                if is_nn(ad.type) and ad.default is ABSENT and an in given:
                    reach0 = _reaching_ops(doc, owner)
                    if reach0:
                        def null_default_var(d2, idx=idx, an=an, ad=ad, reach0=reach0):
                            # a nullable variable whose default is the literal null does not make it usable at a non-null position
                            n = node_at(d2, idx)[0]
                            n.args = [(a, ("var", "nullDefaultVar") if a == an else v) for a, v in n.args]
                            for oi in reach0:
                                d2.operations()[oi].vardefs.append(("nullDefaultVar", ad.type[1], ("null",)))
                        add("variable-allowed-in-position", site + "/null-default", null_default_var)
                    def rm_req(d2, idx=idx, an=an):
                        n = node_at(d2, idx)[0]
                        n.args = [(a, v) for a, v in n.args if a != an]
                    add("required-argument", site, rm_req)
                if an in given:
                    for vpath, vty in _value_sites(schema, ad.type, given[an]):
                        def bad_val(d2, idx=idx, an=an, vpath=vpath, vty=vty):
                            n = node_at(d2, idx)[0]
                            n.args = [(a, _replace_at(v, vpath, _wrong_literal(schema, vty)) if a == an else v) for a, v in n.args]
                        add("value-of-correct-type", site + ("/nested-value" if vpath else "/argument"), bad_val)
                        for lab, wrong in _wrong_literal_variants(schema, vty):
                            def bad_val2(d2, idx=idx, an=an, vpath=vpath, wrong=wrong):
                                n = node_at(d2, idx)[0]
                                n.args = [(a, _replace_at(v, vpath, wrong) if a == an else v) for a, v in n.args]
                            add("value-of-correct-type", site + ("/nested-value/" if vpath else "/argument/") + lab, bad_val2)
                        cur = _get_at(given[an], vpath)
                        if cur[0] == "obj" and cur[1]:
                            def dup_field(d2, idx=idx, an=an, vpath=vpath):
                                n = node_at(d2, idx)[0]
                                def dup(v):
                                    o = _get_at(v, vpath)
                                    return _replace_at(v, vpath, ("obj", list(o[1]) + [o[1][0]]))
                                n.args = [(a, dup(v) if a == an else v) for a, v in n.args]
                            add("unique-input-field", site + "/nested-value", dup_field)
                        reach = _reaching_ops(doc, owner)
                        if reach:
                            def wrong_var(d2, idx=idx, an=an, vpath=vpath, vty=vty, reach=reach):
                                n = node_at(d2, idx)[0]
                                n.args = [(a, _replace_at(v, vpath, ("var", "wrongTypedVar")) if a == an else v) for a, v in n.args]
                                bad = _incompatible_var_type(schema, vty)
                                for oi in reach:
                                    d2.operations()[oi].vardefs.append(("wrongTypedVar", bad, ABSENT))
                            add("variable-allowed-in-position", site + ("/nested-value" if vpath else "/argument"), wrong_var)

                            def unknown_type_var(d2, idx=idx, an=an, vpath=vpath, reach=reach):
                                # a variable declared with a type the schema does not define (so: not an input type)
                                n = node_at(d2, idx)[0]
                                n.args = [(a, _replace_at(v, vpath, ("var", "unknownTypeVar")) if a == an else v) for a, v in n.args]
                                for oi in reach:
                                    d2.operations()[oi].vardefs.append(("unknownTypeVar", L(NN(N("NopeType"))) if vpath else N("NopeType"), ABSENT))
                            add("variable-is-input-type", site + ("/unknown-type/nested-value" if vpath else "/unknown-type/argument"), unknown_type_var)
                        if True:
                            # variable of the wrong type / undefined variable in this position
                            def undef_var(d2, idx=idx, an=an, vpath=vpath):
                                n = node_at(d2, idx)[0]
                                n.args = [(a, _replace_at(v, vpath, ("var", "undefinedVar")) if a == an else v) for a, v in n.args]
                            add("variable-defined", site + ("/nested-value" if vpath else "/argument"), undef_var)
            # --- directives on a field --------------------------------------------------------
            def unk_dir(d2, idx=idx):
                node_at(d2, idx)[0].directives.append(DirUse("nopeDirective"))
            add("known-directive", site, unk_dir)
            def rep_dir(d2, idx=idx):
                n = node_at(d2, idx)[0]
                n.directives.extend([DirUse("skip", [("if", ("bool", False))]), DirUse("skip", [("if", ("bool", False))])])
            add("unique-directive-per-location", site, rep_dir)
            def rep_dir_diff(d2, idx=idx):
                n = node_at(d2, idx)[0]
                n.directives.extend([DirUse("include", [("if", ("bool", True))]), DirUse("include", [("if", ("bool", False))])])
            add("unique-directive-per-location", site + "/different-arguments", rep_dir_diff)
            def dir_bad_arg(d2, idx=idx):
                node_at(d2, idx)[0].directives.append(DirUse("include", [("if", ("str", "yes"))]))
            add("value-of-correct-type", site + "/directive-argument", dir_bad_arg)
            def dir_missing_arg(d2, idx=idx):
                node_at(d2, idx)[0].directives.append(DirUse("include", []))
            add("required-argument", site + "/directive-argument", dir_missing_arg)
            def dir_unknown_arg(d2, idx=idx):
                node_at(d2, idx)[0].directives.append(DirUse("include", [("if", ("bool", True)), ("unless", ("bool", True))]))
            add("known-argument", site + "/directive-argument", dir_unknown_arg)
            def dir_misplaced(d2, idx=idx):
                node_at(d2, idx)[0].directives.append(DirUse("deprecated"))
            add("directive-in-valid-location", site, dir_misplaced)
        if s.kind in ("inline", "field") and pk in ("OBJECT", "INTERFACE", "UNION"):
            # --- fragments ----------------------------------------------------------------------
            def unk_cond(d2, idx=idx):
                n = node_at(d2, idx)
                n[4].sels.insert(n[5], Inline("NopeType", [], [Field("__typename")]))
            add("fragment-type-exists", site, unk_cond)
            def leaf_cond(d2, idx=idx):
                n = node_at(d2, idx)
                n[4].sels.insert(n[5], Inline("Int", [], [Field("__typename")]))
            add("fragment-on-composite", site, leaf_cond)
            def unk_spread(d2, idx=idx):
                n = node_at(d2, idx)
                n[4].sels.insert(n[5], Spread("MissingFragment"))
            add("fragment-spread-target-defined", site, unk_spread)
            if pk == "OBJECT":
                others = [o.name for o in schema.objects() if o.name != parent and o.name not in schema.roots()]
                if others:
                    def impossible(d2, idx=idx, other=others[0]):
                        n = node_at(d2, idx)
                        n[4].sels.insert(n[5], Inline(other, [], [Field("__typename")]))
                    add("fragment-spread-possible", site, impossible)
            if pk == "OBJECT":
                others = [o.name for o in schema.objects() if o.name != parent and o.name not in schema.roots()]
                if others:
                    def impossible_named(d2, idx=idx, other=others[-1]):
                        n = node_at(d2, idx)
                        d2.defs.append(Fragment("ImpossibleHere", other, [Field("__typename")]))
                        n[4].sels.insert(n[5], Spread("ImpossibleHere"))
                    add("fragment-spread-possible", site + "/named-fragment", impossible_named)
            if s.kind == "inline":
                def inl_dir(d2, idx=idx):
                    node_at(d2, idx)[0].directives.append(DirUse("nopeDirective"))
                add("known-directive", site + "/inline-fragment", inl_dir)
        if s.kind == "spread":
            def sp_dir(d2, idx=idx):
                node_at(d2, idx)[0].directives.extend([DirUse("include", [("if", ("bool", True))]), DirUse("include", [("if", ("bool", True))])])
            add("unique-directive-per-location", site + "/fragment-spread", sp_dir)

    # --- document-level rules ---------------------------------------------------------------------
    for oi, op in enumerate(ops):
        def opi(d2, oi=oi):
            return d2.operations()[oi]
        if op.name:
            def dup_op(d2, oi=oi):
                o = opi(d2, oi)
                d2.defs.append(Operation(o.op, o.name, [], [Field("__typename")]))
            if op.op != "subscription":
                add("unique-operation-name", "document", dup_op)
        def anon(d2, oi=oi):
            d2.defs.append(Operation("query", None, [], [Field("__typename")]))
            d2.defs.append(Operation("query", None, [], [Field("__typename")]))
        add("lone-anonymous-operation", "document", anon)
        def unused_var(d2, oi=oi):
            opi(d2, oi).vardefs.append(("unusedVar", N("Int"), ABSENT))
        add("variable-used", "operation", unused_var)
        def non_input_var(d2, oi=oi):
            o = opi(d2, oi)
            obj = schema.objects()[0].name
            o.vardefs.append(("objVar", N(obj), ABSENT))
            o.sels.append(Field("__typename", "usesObjVar", [], [DirUse("skip", [("if", ("var", "objVar"))])]))
        add("variable-is-input-type", "operation", non_input_var)
        def wrong_type_var(d2, oi=oi):
            o = opi(d2, oi)
            o.vardefs.append(("strVar", N("String"), ABSENT))
            o.sels.append(Field("__typename", "usesStrVar", [], [DirUse("skip", [("if", ("var", "strVar"))])]))
        add("variable-allowed-in-position", "operation/type", wrong_type_var)
        def nullable_var(d2, oi=oi):
            o = opi(d2, oi)
            o.vardefs.append(("nullableBool", N("Boolean"), ABSENT))
            o.sels.append(Field("__typename", "usesNullable", [], [DirUse("skip", [("if", ("var", "nullableBool"))])]))
        add("variable-allowed-in-position", "operation/nullability", nullable_var)
        def list_var(d2, oi=oi):
            o = opi(d2, oi)
            o.vardefs.append(("listVar", L(NN(N("Boolean"))), ABSENT))
            o.sels.append(Field("__typename", "usesList", [], [DirUse("skip", [("if", ("var", "listVar"))])]))
        add("variable-allowed-in-position", "operation/listness", list_var)
        def bad_default(d2, oi=oi):
            o = opi(d2, oi)
            o.vardefs.append(("badDefault", N("Int"), ("str", "not an int")))
            o.sels.append(Field("__typename", "usesBadDefault", [], [DirUse("skip", [("if", ("bool", False))])]) if False else
                          Field("__typename", "usesBadDefault"))
            # use the variable so that only its default is wrong
            o.sels[-1].directives = [DirUse("include", [("if", ("bool", True))])]
            o.vardefs[-1] = ("badDefault", NN(N("Boolean")), ("str", "not a boolean"))
            o.sels[-1].directives = [DirUse("include", [("if", ("var", "badDefault"))])]
        add("value-of-correct-type", "operation/variable-default", bad_default)
        if op.op == "query":
            def type_without_name(d2, oi=oi):
                opi(d2, oi).sels.append(Field("__type", "metaNoArg", [], [], [Field("name")]))
            add("required-argument", "operation/meta-field", type_without_name)
            def schema_with_arg(d2, oi=oi):
                opi(d2, oi).sels.append(Field("__schema", "metaBadArg", [("nope", ("int", 1))], [], [Field("queryType", None, [], [], [Field("name")])]))
            add("known-argument", "operation/meta-field", schema_with_arg)
            def type_unknown_sub(d2, oi=oi):
                opi(d2, oi).sels.append(Field("__type", "metaBadField", [("name", ("str", "Query"))], [], [Field("nopeMetaField")]))
            add("fields-exist", "operation/meta-field", type_unknown_sub)
        if op.vardefs:
            def dup_var(d2, oi=oi):
                o = opi(d2, oi)
                o.vardefs.append(o.vardefs[0])
            add("unique-variable", "operation", dup_var)
        def undef_var_dir(d2, oi=oi):
            opi(d2, oi).sels.append(Field("__typename", "usesUndef", [], [DirUse("skip", [("if", ("var", "neverDefined"))])]))
        add("variable-defined", "operation/directive-argument", undef_var_dir)
        def op_dir(d2, oi=oi):
            opi(d2, oi).directives.append(DirUse("skip", [("if", ("bool", False))]))
            opi(d2, oi).shorthand = False
        add("directive-in-valid-location", "operation", op_dir)
        def unused_frag(d2, oi=oi):
            d2.defs.append(Fragment("NeverSpread", schema.query, [Field("__typename")]))
        add("fragment-used", "document", unused_frag)
        root = {"query": schema.query, "mutation": schema.mutation, "subscription": schema.subscription}[op.op]
        def self_cycle(d2, oi=oi, root=root):
            d2.defs.append(Fragment("CycleA", root, [Field("__typename"), Spread("CycleA")]))
            opi(d2, oi).sels.append(Spread("CycleA"))
        def mutual_cycle(d2, oi=oi, root=root):
            d2.defs.append(Fragment("CycleA", root, [Spread("CycleB"), Field("__typename")]))
            d2.defs.append(Fragment("CycleB", root, [Field("__typename"), Spread("CycleA")]))
            opi(d2, oi).sels.append(Spread("CycleA"))
        def inline_cycle(d2, oi=oi, root=root):
            d2.defs.append(Fragment("CycleA", root, [Inline(root, [], [Spread("CycleB")])]))
            d2.defs.append(Fragment("CycleB", root, [Inline(None, [], [Field("__typename"), Spread("CycleA")])]))
            opi(d2, oi).sels.append(Spread("CycleA"))
        if op.op != "subscription":
            add("fragment-acyclic", "self", self_cycle)
            add("fragment-acyclic", "mutual", mutual_cycle)
            add("fragment-acyclic", "through-inline-fragment", inline_cycle)
    # an EXISTING (legally used) fragment spread a second time under a parent type it can never apply to
    for fr in frs:
        poss = set(schema.possible(fr.cond)) if fr.cond in schema.types else set()
        sites_bad = [i2 for i2, (sn, parent, owner, ctx, container, ci) in enumerate(nodes)
                     if schema.kind_of(parent) == "OBJECT" and parent not in poss and owner is not fr and parent not in schema.roots()]
        for pick in ([sites_bad[0], sites_bad[-1]] if len(sites_bad) > 1 else sites_bad):
            def reuse_impossible(d2, pick=pick, name=fr.name):
                n = node_at(d2, pick)
                n[4].sels.insert(n[5], Spread(name))
            add("fragment-spread-possible", "existing-fragment-second-parent", reuse_impossible)
    # a cycle through a nested field: fragment on T { f { ...same } } where T.f returns T
    done_nested = False
    for idx, (sn, parent, owner, ctx, container, ci) in enumerate(nodes):
        if done_nested or schema.kind_of(parent) != "OBJECT":
            continue
        for fname, fd in schema.fields_of(parent).items():
            if named(fd.type) == parent and not any(is_nn(a.type) and a.default is ABSENT for a in fd.args.values()):
                def nested_cycle(d2, idx=idx, parent=parent, fname=fname):
                    n = node_at(d2, idx)
                    d2.defs.append(Fragment("CycleN", parent, [Field(fname, "cyc", [], [], [Field("__typename"), Spread("CycleN")])]))
                    n[4].sels.insert(n[5], Spread("CycleN"))
                add("fragment-acyclic", "through-nested-field", nested_cycle)
                done_nested = True
                break
    for oi, op in enumerate(ops):
        def opi(d2, oi=oi):
            return d2.operations()[oi]
        root = {"query": schema.query, "mutation": schema.mutation, "subscription": schema.subscription}[op.op]
        if op.op == "subscription":
            def root_field(sels):
                """The (first) selection of the subscription's root field, wherever it sits below inline fragments."""
                for sel in sels:
                    if sel.kind == "field" and sel.alias != "tnOther":
                        return sel
                    if sel.kind == "inline":
                        r = root_field(sel.sels)
                        if r is not None:
                            return r
                return None

            def two_roots(d2, oi=oi):
                o = opi(d2, oi)
                f = copy.deepcopy(root_field(o.sels))
                f.alias = "secondRoot"
                o.sels.append(f)
            add("single-subscription-root", "direct", two_roots)
            def two_roots_inline(d2, oi=oi):
                o = opi(d2, oi)
                f = copy.deepcopy(root_field(o.sels))
                f.alias = "secondRoot"
                o.sels.append(Inline(None, [], [f]))
            add("single-subscription-root", "through-inline-fragment", two_roots_inline)
            hosts = [u for u, td in schema.types.items() if td.kind == "UNION" and root in td.members and len(td.members) >= 2]
            if hosts:
                def no_root(d2, oi=oi, un=hosts[0], root=root):
                    # only a fragment on another member of a union the root belongs to: it never applies, zero root fields
                    o = opi(d2, oi)
                    other = [m for m in schema.types[un].members if m != root][0]
                    o.sels = [Inline(un, [], [Inline(other, [], [Field("__typename", "tnOther")])])]
                    # variables / fragments used by the removed selection would now be unused: keep it in another operation
                add("single-subscription-root", "zero-root-fields", no_root)
            def two_roots_frag(d2, oi=oi, root=root):
                o = opi(d2, oi)
                f = copy.deepcopy(root_field(o.sels))
                f.alias = "secondRoot"
                d2.defs.append(Fragment("SecondRoot", root, [f]))
                o.sels.append(Spread("SecondRoot"))
            add("single-subscription-root", "through-fragment", two_roots_frag)
    for fi, fr in enumerate(frs):
        def dup_frag(d2, fi=fi):
            f = [d for d in d2.defs if d.kind == "fragment"][fi]
            d2.defs.append(Fragment(f.name, f.cond, [Field("__typename")]))
        add("unique-fragment-name", "document", dup_frag)
        def frag_unknown_type(d2, fi=fi):
            [d for d in d2.defs if d.kind == "fragment"][fi].cond = "NopeType"
        add("fragment-type-exists", "fragment-definition", frag_unknown_type)
        leafs = [n for n, td in schema.types.items() if td.kind in ("ENUM", "INPUT_OBJECT")]
        def frag_leaf_type(d2, fi=fi, leaf=(leafs[0] if leafs else "Boolean")):
            [d for d in d2.defs if d.kind == "fragment"][fi].cond = leaf
        add("fragment-on-composite", "fragment-definition", frag_leaf_type)
        def frag_undef_var(d2, fi=fi):
            [d for d in d2.defs if d.kind == "fragment"][fi].sels.append(
                Field("__typename", "usesUndefInFragment", [], [DirUse("include", [("if", ("var", "neverDefinedInFragment"))])]))
        add("variable-defined", "fragment", frag_undef_var)
    return rw


TYPE_SYSTEM_SNIPPETS = ["type InjectedType { a: Int }", "scalar InjectedScalar", "enum InjectedEnum { A }",
                        "extend type Query { injected: Int }", "directive @injected on FIELD", "schema { query: Query }"]
