"""Seeded generator of executable documents that are valid by construction against the full
June-2018 rule set (including field-selection merging, which is enforced conservatively: one
response key means one (field, arguments, type) in every set of selections that may be merged)."""
from simv.gen.values import gen_literal
from simv.model.document import Document, Field, Fragment, Inline, Operation, Spread
from simv.model.schema import ABSENT, DirUse, N, NN, named, nullable, is_nn, value_str

ALIASES = ["a", "b", "k", "x1", "id", "name", "z", "t0", "w", "y2", "m", "n", "o", "p1", "q1", "r1"]

DEFAULT_KNOBS = dict(
    max_depth=4, max_sel=5, max_frags=4, max_ops=3, frag_pct=18, inline_pct=15, alias_pct=25,
    repeat_pct=15, skip_pct=12, var_pct=25, typename_pct=10, opt_arg_pct=55, op_kinds=("query", "mutation"),
    null_pct=12, directive_vars=True, introspection_pct=0, skip_null_pct=0,
)


class Entry:
    __slots__ = ("fname", "args", "sig", "type", "sub")

    def __init__(self, fname, args, sig, type, sub):
        self.fname, self.args, self.sig, self.type, self.sub = fname, args, sig, type, sub


def copy_scope(sc):
    return {k: Entry(e.fname, e.args, e.sig, e.type, copy_scope(e.sub) if e.sub is not None else None)
            for k, e in sc.items()}


def compatible(scope, foot):
    for k, e in foot.items():
        if k in scope:
            o = scope[k]
            if (o.fname, o.sig, o.type) != (e.fname, e.sig, e.type):
                return False
            if e.sub is not None and not compatible(o.sub, e.sub):
                return False
    return True


def merge_into(scope, foot):
    for k, e in foot.items():
        if k in scope:
            if e.sub is not None:
                merge_into(scope[k].sub, e.sub)
        else:
            scope[k] = Entry(e.fname, e.args, e.sig, e.type, copy_scope(e.sub) if e.sub is not None else None)


def var_allowed(var_type, var_default, loc_type, loc_has_default):
    """IsVariableUsageAllowed (June 2018, 5.8.5)."""
    if is_nn(loc_type) and not is_nn(var_type):
        has_nn_default = var_default is not ABSENT and var_default != ("null",)
        if not has_nn_default and not loc_has_default:
            return False
        return types_compatible(var_type, loc_type[1])
    return types_compatible(var_type, loc_type)


def types_compatible(v, l):
    if l[0] == "NN":
        if v[0] != "NN":
            return False
        return types_compatible(v[1], l[1])
    if v[0] == "NN":
        return types_compatible(v[1], l)
    if l[0] == "L":
        if v[0] != "L":
            return False
        return types_compatible(v[1], l[1])
    if v[0] == "L":
        return False
    return v[1] == l[1]


class DocGen:
    def __init__(self, schema, tape, knobs=None, stream="doc"):
        self.s = schema
        self.t = tape.sub(stream)
        self.k = dict(DEFAULT_KNOBS)
        if knobs:
            self.k.update(knobs)
        self.vars = {}  # name -> (type, default)
        self.foot = {}  # fragment name -> footprint
        self.frag_index = {}
        self.uses = {}  # owner -> set(var names)
        self.spreads = {}  # owner -> set(fragment names)
        self.owner = None
        self.frag_floor = 0  # inside fragment i only fragments with index > i may be spread
        self.frags = []
        self.uid = 0
        self.probes = {}

    def probe(self, name):
        self.probes[name] = self.probes.get(name, 0) + 1

    # ---- variables ---------------------------------------------------------------------------
    def varhook(self, ty, loc_default, exact=False):
        t = self.t
        if not t.chance(self.k["var_pct"]):
            return None
        cands = [n for n, (vt, vd) in self.vars.items() if var_allowed(vt, vd, ty, loc_default)]
        if exact:
            if self.k["skip_null_pct"] and t.chance(self.k["skip_null_pct"]):
                # a nullable Boolean variable with a default is allowed at `if: Boolean!`; at run time it may
                # be an explicit null.  CollectFields is literal about it: @skip skips when `if` is true,
                # @include includes when `if` is true (so null: not skipped / not included)
                name = "v%d" % len(self.vars)
                self.vars[name] = (ty[1], ("bool", bool(t.draw(2))))
                self.uses.setdefault(self.owner, set()).add(name)
                self.probe("directive_if_nullable_var_with_default")
                return ("var", name)
            # otherwise only exactly-typed variables without default
            cands = [n for n in cands if self.vars[n] == (ty, ABSENT)]
        if cands and t.chance(40):
            name = t.choose(cands)
            self.probe("var_reused")
        else:
            name = "v%d" % len(self.vars)
            mode = 0 if exact else t.draw(4)
            vt, vd = ty, ABSENT
            if mode == 1 and not is_nn(ty):
                vt = NN(ty)  # stricter variable in a nullable position
            elif mode == 2 and is_nn(ty):
                # nullable variable in a non-null position: needs a non-null default (or a location default)
                vt = ty[1]
                if not loc_default or t.chance(50):
                    vd = gen_literal(self.s, ty, t, 0)
                self.probe("var_nullable_in_nonnull")
            elif mode == 3 and not is_nn(vt):
                vd = gen_literal(self.s, vt, t, 10)
            if not var_allowed(vt, vd, ty, loc_default):
                vt, vd = ty, ABSENT
            self.vars[name] = (vt, vd)
        self.uses.setdefault(self.owner, set()).add(name)
        if self.owner is not None and str(self.owner).startswith("frag:"):
            self.probe("var_in_fragment")
        return ("var", name)

    # ---- arguments ---------------------------------------------------------------------------
    def gen_args(self, argdefs):
        t = self.t
        out = []
        for an, ad in argdefs.items():
            required = is_nn(ad.type) and ad.default is ABSENT
            if not required and not t.chance(self.k["opt_arg_pct"]):
                continue
            v = gen_literal(self.s, ad.type, t, self.k["null_pct"], self.varhook, 0,
                            loc_default=ad.default is not ABSENT)
            out.append((an, v))
        if len(out) > 1 and t.chance(25):
            out = t.shuffle(out)
        return out

    def gen_cond_directives(self):
        t = self.t
        out = []
        if not t.chance(self.k["skip_pct"]):
            return out
        names = ["skip", "include"]
        if t.chance(15):
            names = t.shuffle(names)
            use = names
            self.probe("skip_and_include")
        else:
            use = [t.choose(names)]
        for nm in use:
            v = None
            if self.k["directive_vars"]:
                v = self.varhook(NN(N("Boolean")), False, exact=True)
            if v is None:
                v = ("bool", bool(t.draw(2)))
            out.append(DirUse(nm, [("if", v)]))
        return out

    # ---- selections --------------------------------------------------------------------------
    def overlapping(self, parent):
        ps = set(self.s.possible(parent))
        out = []
        for nm, td in self.s.types.items():
            if td.kind in ("OBJECT", "INTERFACE", "UNION") and ps & set(self.s.possible(nm)):
                out.append(nm)
        return out

    def fresh_alias(self, scope):
        cands = [a for a in ALIASES if a not in scope]
        if not cands:
            i = 0
            while "al%d" % i in scope:
                i += 1
            return "al%d" % i
        return self.t.choose(cands)

    def gen_field(self, parent, scope, depth):
        t, s = self.t, self.s
        kind = s.kind_of(parent)
        fields = dict(s.fields_of(parent)) if kind in ("OBJECT", "INTERFACE") else {}
        names = list(fields)
        leaf_names = [n for n in names if s.is_leaf(named(fields[n].type))]
        use_typename = (not names) or t.chance(self.k["typename_pct"]) or (depth >= self.k["max_depth"] and not leaf_names)
        if use_typename:
            fname, ftype, argdefs = "__typename", NN(N("String")), {}
        else:
            pool = leaf_names if (depth >= self.k["max_depth"] and leaf_names) else names
            # sometimes repeat a field already selected in this scope
            existing = [e.fname for e in scope.values() if e.fname in pool]
            if existing and t.chance(self.k["repeat_pct"]):
                fname = t.choose(existing)
            else:
                fname = t.choose(pool)
            ftype, argdefs = fields[fname].type, fields[fname].args
        composite = s.is_composite(named(ftype))
        # the argument *definitions* are part of the type signature: provided arguments copied from
        # a merged occurrence must be valid for this parent's field too
        ftype = (ftype, tuple((a.name, a.type, a.default) for a in argdefs.values()))
        alias = None
        # reuse an existing entry for the same field (repeated / merged field)?
        same = [k for k, e in scope.items() if e.fname == fname and e.type == ftype]
        if same and t.chance(60):
            key = t.choose(same)
            e = scope[key]
            args = list(e.args)
            # merged occurrences use variables too: account for them
            self._account_vars(args)
            alias = key if key != fname else None
            self.probe("repeated_key")
            if composite:
                self.probe("merged_subselection")
        else:
            args = self.gen_args(argdefs)
            sig = ", ".join("%s: %s" % (n, value_str(v)) for n, v in sorted(args))
            key = fname
            if t.chance(self.k["alias_pct"]):
                key = self.fresh_alias(scope) if t.chance(70) else t.choose(ALIASES)
            if key in scope:
                o = scope[key]
                if (o.fname, o.sig, o.type) != (fname, sig, ftype):
                    key = self.fresh_alias(scope)
            if key != fname:
                alias = key
                if kind != "UNION" and key in fields:
                    self.probe("alias_equals_other_field_name")
            if key not in scope:
                scope[key] = Entry(fname, args, sig, ftype, {} if composite else None)
            e = scope[key]
        f = Field(fname, alias, args, self.gen_cond_directives())
        self.uid += 1
        f.uid = self.uid
        if composite:
            f.sels = self.gen_selset(named(ftype[0]), e.sub, depth + 1)
        return f

    def _account_vars(self, args):
        def rec(v):
            if v[0] == "var":
                self.uses.setdefault(self.owner, set()).add(v[1])
            elif v[0] == "list":
                for x in v[1]:
                    rec(x)
            elif v[0] == "obj":
                for _, x in v[1]:
                    rec(x)
        for _, v in args:
            rec(v)

    def gen_selset(self, parent, scope, depth):
        t, k = self.t, self.k
        n = t.rint(1, k["max_sel"] if depth <= 2 else max(2, k["max_sel"] - 2))
        out = []
        kind = self.s.kind_of(parent)
        for _ in range(n):
            r = t.draw(100)
            if r < k["frag_pct"]:
                sp = self.gen_spread(parent, scope)
                if sp is not None:
                    out.append(sp)
                    continue
            if r < k["frag_pct"] + k["inline_pct"] or (kind == "UNION" and r < 75):
                if depth <= k["max_depth"]:
                    out.append(self.gen_inline(parent, scope, depth))
                    continue
            out.append(self.gen_field(parent, scope, depth))
        return out

    def gen_inline(self, parent, scope, depth):
        t = self.t
        cond = None
        target = parent
        over = self.overlapping(parent)
        if over and (t.chance(75) or self.s.kind_of(parent) == "UNION"):
            cond = t.choose(over)
            target = cond
            if self.s.kind_of(cond) == "INTERFACE" and self.s.kind_of(parent) == "UNION":
                self.probe("interface_fragment_on_union")
        inl = Inline(cond, self.gen_cond_directives())
        n = t.rint(1, 3)
        for _ in range(n):
            if t.chance(12):
                sp = self.gen_spread(target, scope)
                if sp is not None:
                    inl.sels.append(sp)
                    continue
            inl.sels.append(self.gen_field(target, scope, depth))
        return inl

    def gen_spread(self, parent, scope):
        t = self.t
        over = set(self.overlapping(parent))
        cands = [f for f in self.frags
                 if self.frag_index[f.name] > self.frag_floor and f.cond in over and compatible(scope, self.foot[f.name])]
        if not cands:
            return None
        f = t.choose(cands)
        if f.name in self.spreads.get(self.owner, ()):
            self.probe("fragment_spread_twice_same_owner")
        merge_into(scope, self.foot[f.name])
        self.spreads.setdefault(self.owner, set()).add(f.name)
        dirs = self.gen_cond_directives()
        if dirs:
            self.probe("skip_on_spread")
        return Spread(f.name, dirs)

    def gen_introspection(self, scope):
        """Introspection meta-fields at the query root (their results are opaque to the reference)."""
        t = self.t
        out = []
        if t.chance(60):
            key = "__type" if "__type" not in scope else self.fresh_alias(scope)
            tn = t.choose(list(self.s.types) + ["Int", "Nope"])
            f = Field("__type", key if key != "__type" else None, [("name", ("str", tn))], [],
                      [Field("name"), Field("kind"), Field("fields", None, [], [], [Field("name")])])
            scope[key] = Entry("__type", f.args, "name", ("intro", ()), {})
            out.append(f)
            self.probe("introspection___type")
        if t.chance(60):
            key = "__schema" if "__schema" not in scope else self.fresh_alias(scope)
            f = Field("__schema", key if key != "__schema" else None, [], [],
                      [Field("queryType", None, [], [], [Field("name")]), Field("types", None, [], [], [Field("name"), Field("__typename")])])
            scope[key] = Entry("__schema", [], "", ("intro", ()), {})
            out.append(f)
            self.probe("introspection___schema")
        return out

    # ---- whole document ----------------------------------------------------------------------
    def generate(self):
        t, s, k = self.t, self.s, self.k
        nfr = t.rint(0, k["max_frags"])
        composites = [nm for nm, td in s.types.items() if td.kind in ("OBJECT", "INTERFACE", "UNION")
                      and nm not in (s.mutation, s.subscription)]
        # fragments are generated last-to-first so that F_i may spread F_j (j > i): a DAG
        # operation names and fragment names are separate namespaces: sometimes they coincide
        clash = t.chance(20)
        for i in range(nfr - 1, -1, -1):
            name = ("Op%d" % i) if (clash and t.chance(60)) else ("Fr%d" % i)
            if name.startswith("Op"):
                self.probe("fragment_named_like_operation")
            cond = t.choose(composites)
            self.owner = "frag:" + name
            self.frag_floor = i
            self.frag_index[name] = i
            foot = {}
            fr = Fragment(name, cond)
            self.frag_index[name] = i
            fr.sels = self.gen_selset(cond, foot, 2)
            self.foot[name] = foot
            self.frags.append(fr)
        self.frag_floor = -1
        kinds = [x for x in k["op_kinds"] if (x == "query") or (x == "mutation" and s.mutation)
                 or (x == "subscription" and s.subscription)]
        nops = t.rint(1, k["max_ops"])
        ops = []
        for i in range(nops):
            kind = t.weighted([(6, "query")] + [(3, x) for x in kinds if x != "query"]) if "query" in kinds else t.choose(kinds)
            op = Operation(kind, "Op%d" % i if (nops > 1 or t.chance(50)) else None)
            self.owner = "op:%d" % i
            root = {"query": s.query, "mutation": s.mutation, "subscription": s.subscription}[kind]
            scope = {}
            if kind == "subscription":
                f = None
                for _ in range(8):
                    snap = (dict(self.vars), {k2: set(v2) for k2, v2 in self.uses.items()},
                            {k2: set(v2) for k2, v2 in self.spreads.items()})
                    f = self.gen_field(root, scope, 1)
                    if f.name != "__typename" and not f.directives:
                        break
                    # discard the attempt together with the variables / spreads it registered
                    scope.clear()
                    self.vars, self.uses, self.spreads = snap
                if f.name == "__typename" or f.directives:
                    fname = next(iter(self.s.fields_of(root)))
                    fd = self.s.fields_of(root)[fname]
                    f = Field(fname, None, self.gen_args(fd.args))
                    if self.s.is_composite(named(fd.type)):
                        f.sels = [Field("__typename")]
                op.sels = [f]
                host = [u for u, td in s.types.items() if td.kind == "UNION" and root in td.members and len(td.members) >= 2]
                if host and t.chance(40):
                    # the root field reached through a fragment on a union the root type belongs to, next to a fragment
                    # on ANOTHER member (which does not apply to the root type and therefore selects nothing)
                    un = t.choose(host)
                    other = t.choose([m for m in s.types[un].members if m != root])
                    op.sels = [Inline(un, None, [Inline(other, None, [Field("__typename", "tnOther")]), Inline(root, None, [f])])]
                    self.probe("subscription_root_through_union_fragment")
                elif t.chance(k["repeat_pct"]):
                    # the single root field selected again, identically (one response key: still one root field)
                    import copy as _copy
                    twin = _copy.deepcopy(f)
                    form = t.choose(["direct", "inline", "inline_cond"])
                    if form == "direct":
                        op.sels.append(twin)
                    else:
                        op.sels.append(Inline(root if form == "inline_cond" else None, None, [twin]))
                    self.probe("subscription_root_repeated")
            else:
                op.sels = self.gen_selset(root, scope, 1)
                if kind == "query" and t.chance(k["introspection_pct"]):
                    op.sels.extend(self.gen_introspection(scope))
            op.shorthand = t.chance(50)
            ops.append(op)
        # usage closure
        frag_by_name = {f.name: f for f in self.frags}

        def closure(owner):
            seen, stack, used = set(), list(self.spreads.get(owner, ())), set(self.uses.get(owner, ()))
            while stack:
                fn = stack.pop()
                if fn in seen:
                    continue
                seen.add(fn)
                used |= self.uses.get("frag:" + fn, set())
                stack.extend(self.spreads.get("frag:" + fn, ()))
            return seen, used

        reachable = set()
        for i, op in enumerate(ops):
            fr, used = closure("op:%d" % i)
            reachable |= fr
            names = sorted(used, key=lambda n: int(n[1:]))
            if t.chance(20):
                names = t.shuffle(names)
            op.vardefs = [(n, self.vars[n][0], self.vars[n][1]) for n in names]
            only_frag = used - self.uses.get("op:%d" % i, set())
            if only_frag:
                self.probe("var_only_in_fragment")
        frs = [f for f in self.frags if f.name in reachable]
        if any(len([1 for o in ("op:%d" % i for i in range(nops)) if f.name in closure(o)[0]]) > 1 for f in frs):
            self.probe("fragment_shared_by_operations")
        shared = {}
        for f in frs:
            for sub in self.spreads.get("frag:" + f.name, ()):
                shared[sub] = shared.get(sub, 0) + 1
        if any(c > 1 for c in shared.values()):
            self.probe("fragments_share_subfragment")
        defs = ops + frs
        mode = t.draw(3)
        if mode == 1:
            defs = frs + ops
            self.probe("fragments_before_operations")
        elif mode == 2:
            defs = t.shuffle(defs)
        else:
            if frs:
                self.probe("fragments_after_use")
        return Document(defs)


def gen_document(schema, tape, knobs=None, stream="doc"):
    g = DocGen(schema, tape, knobs, stream)
    doc = g.generate()
    doc.probes = g.probes
    doc.var_pool = dict(g.vars)
    return doc


def gen_variables(schema, tape, op, stream="vars", omit_pct=30, null_pct=15):
    """A JSON variables object valid for the operation's definitions."""
    from simv.gen.values import gen_json
    t = tape.sub(stream)
    out = {}
    for name, ty, default in op.vardefs:
        optional = (not is_nn(ty)) or default is not ABSENT
        if optional and t.chance(omit_pct):
            continue
        out[name] = gen_json(schema, ty, t, null_pct)
    if t.chance(10):
        out["unusedExtra"] = 1
    return out


def mirror_post(doc, tape):
    """Doc post-processing: one field that selects through fragments gets an aliased twin whose selection set is the
    same in REVERSE order (the same fragments reached in two orders under one runtime type: response keys follow the
    first appearance in each).  Two fresh fragments on the field's type, both selecting one composite field under the
    same fresh response key with DIFFERENT sub-selections, are spread in it first, so that merged field nodes of one key
    come in the two orders."""
    import copy as _copy
    t = tape.sub("mirror")
    if not t.chance(35):
        return
    schema = getattr(doc, "schema_model", None)
    if schema is None:
        return
    cands = []

    def walk(sels, container, is_sub_root, parent):
        for sel in sels:
            if sel.kind == "field" and sel.sels and not sel.name.startswith("__"):
                fd = schema.fields_of(parent).get(sel.name) if schema.kind_of(parent) in ("OBJECT", "INTERFACE") else None
                if fd is None:
                    continue
                ft = named(fd.type)
                if not is_sub_root:
                    cands.append((container, sel, ft))
                walk(sel.sels, sel, False, ft)
            elif sel.kind == "inline":
                walk(sel.sels, sel, is_sub_root, sel.cond or parent)

    for d in doc.defs:
        if d.kind == "operation":
            root = {"query": schema.query, "mutation": schema.mutation, "subscription": schema.subscription}[d.op]
            walk(d.sels, d, d.op == "subscription", root)
        else:
            walk(d.sels, d, False, d.cond)
    if not cands:
        return
    container, f, ft = cands[t.draw(len(cands))]
    if schema.kind_of(ft) in ("OBJECT", "INTERFACE") and schema.possible(ft):  # (an interface nobody implements has no possible type)
        comp = [fd for fd in schema.fields_of(ft).values()
                if schema.is_composite(named(fd.type)) and not any(is_nn(ad.type) and ad.default is ABSENT for ad in fd.args.values())]
        names = {d.name for d in doc.defs if d.kind == "fragment"}
        if comp and "MirA" not in names:
            fd = comp[t.draw(len(comp))]
            doc.defs.append(Fragment("MirA", ft, [Field(fd.name, "mzz", [], [], [Field("__typename", "ta")])]))
            doc.defs.append(Fragment("MirB", ft, [Field(fd.name, "mzz", [], [], [Field("__typename", "tb")])]))
            f.sels.append(Spread("MirA"))
            f.sels.append(Spread("MirB"))
            if isinstance(getattr(doc, "probes", None), dict):
                doc.probes["merged_nodes_in_two_orders"] = 1
    twin = _copy.deepcopy(f)
    n = 0
    taken = {getattr(x, "alias", None) or getattr(x, "name", None) for x in container.sels}
    while "mirror%d" % n in taken:
        n += 1
    twin.alias = "mirror%d" % n
    twin.sels = list(reversed(twin.sels))
    container.sels.append(twin)
    probes = getattr(doc, "probes", None)
    if isinstance(probes, dict):
        probes["mirrored_selection_set"] = probes.get("mirrored_selection_set", 0) + 1
