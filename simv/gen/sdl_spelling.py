"""Meaning-preserving respelling of SDL text (what a client may legally write differently).

respell(text, t) tokenises the SDL produced by the model printers and re-emits the same token
sequence with other ignored tokens between them: spaces, tabs, line terminators (LF, CRLF, CR),
commas, comments (also comments that look like definitions) and nothing at all where two tokens
may touch.  Optional syntax is varied too: a leading `|` before the first union member.  The
result denotes exactly the same type system."""
import re

TOKEN = re.compile(r'''
    (?P<block>"""(?:\\"""|(?!""").|\n)*?""")      |
    (?P<string>"(?:\\.|[^"\\\n])*")                |
    (?P<comment>\#[^\n\r]*)                        |
    (?P<name>[_A-Za-z][_0-9A-Za-z]*)               |
    (?P<number>-?[0-9]+(?:\.[0-9]+)?(?:[eE][+-]?[0-9]+)?) |
    (?P<punct>\.\.\.|[!$()\[\]{}:=@|&])            |
    (?P<ws>[\s,﻿]+)
''', re.X | re.S)

SEPARATORS = [" ", "\n", "  ", "\t", " , ", ",", "\r\n", "\n\n", " # note\n", "\n# type Ghost { x: Int }\n", "\r", " #\n", "\n  "]
COMMENTS = ["# leading comment\n", "# scalar Ghost\n# union G = A | B\n", "#\n"]


def tokenize(text):
    out = []
    pos = 0
    while pos < len(text):
        m = TOKEN.match(text, pos)
        if m is None:
            raise ValueError("cannot tokenise SDL at %r" % text[pos:pos + 30])
        pos = m.end()
        kind = m.lastgroup
        if kind in ("ws", "comment"):
            continue
        out.append((kind, m.group(0)))
    return out


def _needs_gap(a, b):
    """Two tokens that would fuse (or change meaning) when written without anything between them."""
    wordish = ("name", "number")
    if a[0] in wordish and b[0] in wordish:
        return True
    if a[0] in ("string", "block") and b[0] in ("string", "block"):
        return True
    if a[0] == "number" and b[0] == "punct" and b[1] == "...":
        return True
    return False


def respell(text, t, density=35):
    """Return SDL text with the same tokens as `text`; `t` is a (sub)tape."""
    toks = tokenize(text)
    if not toks:
        return text
    out = []
    if t.chance(15):
        out.append(t.choose(COMMENTS))
    in_union = False
    in_directive_def = False
    depth = 0
    prev = None
    for i, tok in enumerate(toks):
        if tok == ("name", "directive") and (prev is None or prev[1] != ":") and i + 1 < len(toks) and toks[i + 1] == ("punct", "@"):
            in_directive_def = True
        if tok[0] == "punct" and tok[1] in "([{":
            depth += 1
        elif tok[0] == "punct" and tok[1] in ")]}":
            depth -= 1
        if prev is not None:
            if t.chance(density):
                sep = t.choose(SEPARATORS)
                if t.chance(12) and not _needs_gap(prev, tok):
                    sep = ""
            else:
                sep = " " if (prev[0] != "punct" or prev[1] in "=:|&") and (tok[0] != "punct" or tok[1] in "=|&{@") else (
                    "" if not _needs_gap(prev, tok) else " ")
            if tok[0] == "name" and tok[1] in ("type", "interface", "union", "enum", "input", "scalar", "directive", "extend", "schema") \
                    and prev[1] in ("}",) and "\n" not in sep and "\r" not in sep:
                sep = sep + " "
            out.append(sep)
        out.append(tok[1])
        if tok == ("name", "union") and (prev is None or prev[1] != ":"):
            in_union = True
        elif in_union and tok == ("punct", "="):
            if t.chance(35):
                out.append(" |")
            in_union = False
        elif tok == ("name", "implements") and prev is not None and prev[0] == "name" and i + 1 < len(toks) and toks[i + 1][0] == "name":
            if t.chance(35):
                out.append(" &")  # optional leading separator of the implemented interfaces
        elif tok == ("name", "on") and in_directive_def and depth == 0:
            if t.chance(35):
                out.append(" |")  # optional leading separator of the directive locations
            in_directive_def = False
        elif tok[0] == "punct" and tok[1] in "{}":
            in_union = False
        prev = tok
    tail = t.choose(["\n", "\n", "", " ", "\n# end", " # end without newline", "\r\n", ","])
    out.append(tail)
    return "".join(out)


def same_tokens(a, b):
    ta, tb = tokenize(a), tokenize(b)
    # a leading `|` in a union is optional syntax: ignore it for the comparison
    def strip(ts):
        res = []
        for i, x in enumerate(ts):
            if x == ("punct", "|") and res and res[-1] in (("punct", "="), ("name", "on")):
                continue
            if x == ("punct", "&") and res and res[-1] == ("name", "implements"):
                continue
            res.append(x)
        return res
    return strip(ta) == strip(tb)
