"""Seeded generators of input values (literals and JSON) that are valid for a given input type."""
from simv.model.schema import named, is_nn, nullable

INT_POOL = [0, 1, -1, 7, 42, 2147483647, -2147483648, 1000, 65536]
FLOAT_POOL = [0.0, 1.5, -2.25, 1e20, 3.0, 0.1, -0.0, 1e-7, 123456.789]
STR_POOL = ["", "s", "hello", "x:y", "a b", "été", "12", "true", "null", "q\"uote", "back\\slash", "line\nfeed", "esc\\u0041x"]
ID_POOL = ["id1", "", "007", "x"]


def gen_literal(schema, ty, t, null_pct=15, varhook=None, depth=0, loc_default=False):
    """Return a Value tuple valid for input type `ty`.

    varhook(ty, loc_has_default) may return ("var", name) to put a variable at this position.
    """
    if varhook is not None:
        v = varhook(ty, loc_default)
        if v is not None:
            return v
    if is_nn(ty):
        inner = ty[1]
    else:
        if t.chance(null_pct):
            return ("null",)
        inner = ty
    if inner[0] == "L":
        item = inner[1]
        if t.chance(12):
            # single value coerced to a list of one; variables may sit INSIDE it (an object literal without
            # brackets), not be it: a variable of the item type is not allowed at a list position
            first = [True]

            def inner_hook(ty2, ld):
                if first[0]:
                    first[0] = False
                    return None
                return varhook(ty2, ld)

            v = gen_literal(schema, item, t, 0, inner_hook if varhook is not None else None, depth + 1)
            if v[0] not in ("null", "var"):
                return v
        n = t.rint(0, 3)
        return ("list", [gen_literal(schema, item, t, null_pct, varhook, depth + 1) for _ in range(n)])
    name = inner[1]
    return gen_named_literal(schema, name, t, null_pct, varhook, depth)


def gen_named_literal(schema, name, t, null_pct=15, varhook=None, depth=0):
    if name == "Int":
        return ("int", t.choose(INT_POOL))
    if name == "Float":
        if t.chance(25):
            # an integer literal is a valid Float literal, also beyond the 32-bit Int range
            return ("int", t.choose(INT_POOL[:7] + [3000000000, -3000000000, 2 ** 53, 10 ** 15]))
        return ("float", t.choose(FLOAT_POOL))
    if name == "String":
        return ("str", t.choose(STR_POOL))
    if name == "Boolean":
        return ("bool", bool(t.draw(2)))
    if name == "ID":
        if t.chance(30):
            return ("int", t.choose(INT_POOL[:5]))
        return ("str", t.choose(ID_POOL))
    td = schema.types[name]
    if td.kind == "ENUM":
        return ("enum", t.choose(td.names()))
    if td.kind == "SCALAR":
        if td.custom == "xstr":
            return ("str", "x:" + t.choose(STR_POOL[:6]))
        if td.custom == "xnum":
            return ("int", 1000 + t.choose(INT_POOL[:5]))
        raise ValueError(name)
    if td.kind == "INPUT_OBJECT":
        fields = []
        for fn, fd in td.fields.items():
            required = is_nn(fd.type) and fd.default == ("absent",)
            is_obj = schema.kind_of(named(fd.type)) == "INPUT_OBJECT"
            if not required:
                if is_obj and depth >= 2:
                    continue
                if not t.chance(55):
                    continue
            fields.append((fn, gen_literal(schema, fd.type, t, null_pct, varhook, depth + 1,
                                           loc_default=fd.default != ("absent",))))
        fields = t.shuffle(fields) if t.chance(30) else fields
        return ("obj", fields)
    raise ValueError(name)


def lit_to_json(v):
    k = v[0]
    if k in ("int", "str", "bool", "enum"):
        return v[1]
    if k == "float":
        return float(v[1])
    if k == "null":
        return None
    if k == "list":
        return [lit_to_json(x) for x in v[1]]
    if k == "obj":
        return {n: lit_to_json(x) for n, x in v[1]}
    raise ValueError(v)


def gen_json(schema, ty, t, null_pct=15):
    return lit_to_json(gen_literal(schema, ty, t, null_pct))
