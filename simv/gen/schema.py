"""Seeded schema generator (valid by construction)."""
from simv.model.schema import (
    ABSENT, ArgDef, EnumDef, EnumValueDef, FieldDef, InputDef, InterfaceDef, L, N, NN, ObjectDef,
    ScalarDef, Schema, UnionDef, named, nullable, is_nn,
)
from simv.gen.values import gen_literal

FIELD_NAMES = ["a", "b", "c", "d", "e", "f", "g", "h", "id", "name", "t0", "x", "y", "_x", "e1", "repeatable"]  # repeatable: a keyword of later spec editions, an ordinary name here
ARG_NAMES = ["p", "q", "r", "id", "a", "e2"]  # e1 / e2: names shaped like an exponent (they may follow a number)
ENUM_VALUE_NAMES = ["A", "B", "C", "D", "RED", "a", "True", "None"]  # legal names that spell Python constants

DEFAULT_KNOBS = dict(
    max_objects=5, max_interfaces=2, max_unions=2, max_enums=2, max_inputs=3, max_custom_scalars=2,
    max_fields=5, max_args=3, mutation_pct=35, subscription_pct=0, default_impl_pct=30,
    wrap_depth=3, arg_pct=45, root_default_impl=False, lag_pct=0, rename_roots_pct=0, subscription_default_impl_pct=0,
    covariant_pct=20, sub_in_union_pct=40,
)


def gen_wrappers(t, base, depth, nn_pct=35, list_pct=35):
    """Wrap ("N", base) in up to `depth` list levels with random non-null markers."""
    ty = N(base)
    if t.chance(nn_pct):
        ty = NN(ty)
    lists = 0
    while lists < depth - 1 and t.chance(list_pct):
        ty = L(ty)
        if t.chance(nn_pct):
            ty = NN(ty)
        lists += 1
    return ty


def gen_schema(tape, knobs=None, stream="schema"):
    k = dict(DEFAULT_KNOBS)
    if knobs:
        k.update(knobs)
    t = tape.sub(stream)
    s = Schema()

    # leaf types
    n_enum = t.rint(0, k["max_enums"])
    for i in range(n_enum):
        nvals = t.rint(1, 4)
        vals = t.shuffle(ENUM_VALUE_NAMES)[:nvals]
        s.add(EnumDef("E%d" % i, [EnumValueDef(v) for v in vals]))
    n_cs = t.rint(0, k["max_custom_scalars"])
    if n_cs >= 1:
        s.add(ScalarDef("XStr", custom="xstr"))
    if n_cs >= 2:
        s.add(ScalarDef("XNum", custom="xnum"))
    leafs = ["Int", "Float", "String", "Boolean", "ID"] + [x.name for x in s.types.values()]

    # input objects
    n_in = t.rint(0, k["max_inputs"])
    in_names = ["In%d" % i for i in range(n_in)]
    for i, nm in enumerate(in_names):
        s.add(InputDef(nm))
    for i, nm in enumerate(in_names):
        idef = s.t(nm)
        nf = t.rint(1, 4)
        for fname in t.shuffle(FIELD_NAMES)[:nf]:
            if in_names and t.chance(30):
                base = t.choose(in_names)
                # recursion only through nullable / list positions: never a chain of non-null
                ty = N(base)
                if t.chance(40):
                    ty = L(NN(ty) if t.chance(50) else ty)
                idef.fields[fname] = ArgDef(fname, ty)
                continue
            base = t.choose(leafs)
            ty = gen_wrappers(t, base, k["wrap_depth"])
            default = ABSENT
            if t.chance(35):
                default = gen_literal(s, ty, t, null_pct=10)
            idef.fields[fname] = ArgDef(fname, ty, default)
    input_types = leafs + in_names

    # interfaces
    n_if = t.rint(0, k["max_interfaces"])
    if_names = ["F%d" % i for i in range(n_if)]
    for nm in if_names:
        s.add(InterfaceDef(nm))
    # objects
    n_obj = t.rint(2, k["max_objects"])
    obj_names = ["T%d" % i for i in range(n_obj)]
    for nm in obj_names:
        s.add(ObjectDef(nm))
    # unions
    n_un = t.rint(0, k["max_unions"])
    un_names = ["U%d" % i for i in range(n_un)]
    for nm in un_names:
        members = [o for o in obj_names if t.chance(55)] or [t.choose(obj_names)]
        s.add(UnionDef(nm, members))
        s.t(nm).type_resolver = t.chance(40)
    composites = obj_names + if_names + un_names
    out_types = leafs + composites

    def gen_args():
        args = {}
        if not t.chance(k["arg_pct"]):
            return args
        for an in t.shuffle(ARG_NAMES)[: t.rint(1, k["max_args"])]:
            base = t.choose(input_types)
            if base in in_names:
                ty = gen_wrappers(t, base, 2)
            else:
                ty = gen_wrappers(t, base, k["wrap_depth"])
            default = ABSENT
            if t.chance(35):
                default = gen_literal(s, ty, t, null_pct=10)
            args[an] = ArgDef(an, ty, default)
        return args

    def gen_field(fname, root=False):
        base = t.choose(out_types) if not t.chance(35) else t.choose(composites)
        ty = gen_wrappers(t, base, k["wrap_depth"])
        f = FieldDef(fname, ty, gen_args())
        return f

    for nm in if_names:
        idef = s.t(nm)
        for fname in t.shuffle(FIELD_NAMES)[: t.rint(1, 3)]:
            idef.fields[fname] = gen_field(fname)
        idef.type_resolver = t.chance(40)

    for nm in obj_names:
        o = s.t(nm)
        for ifn in if_names:
            if t.chance(50):
                # interface fields must be compatible: skip if a previously implemented interface
                # declared the same field name differently
                ok = True
                for fname, f in s.t(ifn).fields.items():
                    if fname in o.fields and (o.fields[fname].type != f.type or
                                              _args_sig(o.fields[fname]) != _args_sig(f)):
                        ok = False
                if not ok:
                    continue
                o.interfaces.append(ifn)
                for fname, f in s.t(ifn).fields.items():
                    if fname not in o.fields:
                        o.fields[fname] = _clone_field(f)
        for fname in t.shuffle(FIELD_NAMES)[: t.rint(1, k["max_fields"])]:
            if fname not in o.fields:
                o.fields[fname] = gen_field(fname)
    # every interface has at least one implementer
    for ifn in if_names:
        if not s.possible(ifn):
            cands = [o for o in obj_names if all(
                fn not in s.t(o).fields or (s.t(o).fields[fn].type == f.type and _args_sig(s.t(o).fields[fn]) == _args_sig(f))
                for fn, f in s.t(ifn).fields.items())]
            if cands:
                o = s.t(t.choose(cands))
                o.interfaces.append(ifn)
                for fname, f in s.t(ifn).fields.items():
                    if fname not in o.fields:
                        o.fields[fname] = _clone_field(f)

    # an implementing field may be declared with a more specific type than the interface's field
    # (non-null strengthening, possible object type of an abstract type, covariant list items) and
    # with additional optional arguments
    ct = tape.sub(stream + ".cov")
    if k["covariant_pct"]:
        def specialise(ty):
            if is_nn(ty):
                return NN(nullable(specialise(ty[1])))
            inner = ty
            if inner[0] == "L":
                inner = L(specialise(inner[1]))
            else:
                nm_ = inner[1]
                if s.kind_of(nm_) in ("INTERFACE", "UNION") and s.possible(nm_) and ct.chance(60):
                    inner = N(ct.choose(s.possible(nm_)))
            return NN(inner) if ct.chance(35) else inner

        for nm in obj_names:
            o = s.t(nm)
            inherited = []
            for ifn in o.interfaces:
                for fn in s.t(ifn).fields:
                    if fn not in inherited:
                        inherited.append(fn)
            for fn in inherited:
                if ct.chance(k["covariant_pct"]):
                    o.fields[fn].type = specialise(o.fields[fn].type)
                if ct.chance(k["covariant_pct"] // 2):
                    free = [a for a in ARG_NAMES if a not in o.fields[fn].args]
                    if free:
                        base = ct.choose(["Int", "String", "Boolean"])
                        o.fields[fn].args[free[0]] = ArgDef(free[0], N(base), ABSENT if ct.chance(50) else gen_literal(s, N(base), ct, null_pct=10))

    # implementation style / concurrency flags per object field
    for nm in obj_names:
        for f in s.t(nm).fields.values():
            _decorate_field(s, t, f, k)

    # roots
    q = s.add(ObjectDef("Query"))
    for fname in t.shuffle(FIELD_NAMES)[: t.rint(2, k["max_fields"])]:
        q.fields[fname] = gen_field(fname, root=True)
        _decorate_field(s, t, q.fields[fname], k, root=True)
    if t.chance(k["mutation_pct"]):
        m = s.add(ObjectDef("Mutation"))
        s.mutation = "Mutation"
        for fname in t.shuffle(FIELD_NAMES)[: t.rint(2, 4)]:
            m.fields[fname] = gen_field(fname, root=True)
            _decorate_field(s, t, m.fields[fname], k, root=True)
    if t.chance(k["subscription_pct"]):
        sub = s.add(ObjectDef("Subscription"))
        s.subscription = "Subscription"
        for fname in t.shuffle(FIELD_NAMES)[: t.rint(1, 3)]:
            sub.fields[fname] = gen_field(fname, root=True)
            sub.fields[fname].impl = "resolver"
            if t.chance(k["subscription_default_impl_pct"]) and not is_nn(sub.fields[fname].type):
                # no @Resolver on the subscription field: the default resolver reads the event payload
                sub.fields[fname].impl = "key"
    if t.chance(k["rename_roots_pct"]):
        # custom root type names: need an explicit `schema { ... }` definition
        for old, new, attr in (("Query", "QRoot", "query"), ("Mutation", "MRoot", "mutation"), ("Subscription", "SRoot", "subscription")):
            if getattr(s, attr) == old and old in s.types:
                items = list(s.types.items())
                s.types.clear()
                for n, td in items:
                    if n == old:
                        td.name = new
                        n = new
                    s.types[n] = td
                setattr(s, attr, new)
        s.explicit_schema_def = True
    ut = tape.sub(stream + ".subunion")
    unions = [td for td in s.types.values() if td.kind == "UNION"]
    if s.subscription and unions and ut.chance(k["sub_in_union_pct"]):
        # the subscription root type is also a member of a union (fragments on that union may appear at the root)
        u = unions[ut.draw(len(unions))]
        if s.subscription not in u.members:
            u.members.append(s.subscription)
    if k["lag_pct"]:
        # a pass-through directive whose hooks suspend: puts scheduler points inside argument,
        # input-object and variable coercion (where the engine gathers)
        from simv.model.schema import DirUse, DirectiveDef
        used = False
        for td in s.types.values():
            if td.kind == "OBJECT":
                for f in td.fields.values():
                    for a in f.args.values():
                        if t.chance(k["lag_pct"]):
                            a.directives.append(DirUse("lag"))
                            used = True
            elif td.kind == "INPUT_OBJECT":
                for a in td.fields.values():
                    if t.chance(k["lag_pct"]):
                        a.directives.append(DirUse("lag"))
                        used = True
        if used:
            s.directives["lag"] = DirectiveDef("lag", ["ARGUMENT_DEFINITION", "INPUT_FIELD_DEFINITION"])
    return s


def _args_sig(f):
    return [(a.name, a.type, a.default) for a in f.args.values()]


def _clone_field(f):
    g = FieldDef(f.name, f.type, {n: ArgDef(a.name, a.type, a.default) for n, a in f.args.items()})
    return g


def _decorate_field(s, t, f, k, root=False):
    base = named(f.type)
    composite = s.is_composite(base)
    use_default = t.chance(k["default_impl_pct"]) and (not root or k["root_default_impl"])
    # default resolvers only where a bounded data tree is guaranteed: leaves, or composites that
    # are nullable at the outermost level
    if use_default and (not composite or not is_nn(f.type)):
        f.impl = "attr" if t.chance(40) else "key"
    else:
        f.impl = "resolver"
        f.lc = t.choose([None, None, True, False])
        f.pc = t.choose([None, None, True, False])
        f.ac = t.choose([None, None, "gather", "sync"])
        if s.kind_of(base) in ("INTERFACE", "UNION"):
            f.field_type_resolver = t.chance(35)
