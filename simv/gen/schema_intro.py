"""C11 workload: decorate a generated schema with everything introspection reports (descriptions,
deprecations, hidden fields, custom directive definitions), move a random subset of members into
`extend` definitions of every kind, and render the expected introspection answer from the model."""
import copy

from simv.gen.values import gen_literal
from simv.model.schema import NULL_REASON  # noqa: E402
from simv.model.schema import (
    ABSENT, ArgDef, DirUse, DirectiveDef, EnumValueDef, L, N, NN, arg_str, dirs_str, directive_def_str, field_str,
    schema_def_str, tstr, typedef_chunks, value_str,
)

DIR_LOCATIONS = ["SCHEMA", "SCALAR", "OBJECT", "FIELD_DEFINITION", "ARGUMENT_DEFINITION", "INTERFACE", "UNION", "ENUM", "ENUM_VALUE",
                 "INPUT_OBJECT", "INPUT_FIELD_DEFINITION", "QUERY", "MUTATION", "SUBSCRIPTION", "FIELD", "FRAGMENT_DEFINITION",
                 "FRAGMENT_SPREAD", "INLINE_FRAGMENT"]
DESCS = ["A description.", "Multi word description with `ticks`", "été ünïcode", "x", ""]


def decorate(schema, tape):
    """Descriptions, deprecations, hidden fields, custom directive definitions and applications."""
    t = tape.sub("intro")
    leafs = ["Int", "Float", "String", "Boolean", "ID"] + [n for n, td in schema.types.items() if td.kind in ("ENUM",)]
    for i in range(t.rint(0, 3)):
        locs = t.shuffle(DIR_LOCATIONS)[: t.rint(1, 6)]
        args = {}
        for an in t.shuffle(["a", "b", "c"])[: t.rint(0, 3)]:
            base = t.choose(leafs)
            ty = N(base)
            if t.chance(30):
                ty = L(NN(ty) if t.chance(50) else ty)
            if t.chance(20):
                ty = NN(ty)
            default = gen_literal(schema, ty, t, 10) if t.chance(50) else ABSENT
            args[an] = ArgDef(an, ty, default)
            if t.chance(30):
                args[an].description = t.choose(DESCS)
        d = DirectiveDef("d%d" % i, locs, args)
        if t.chance(40):
            d.description = t.choose(DESCS)
        schema.directives[d.name] = d

    def apply(loc):
        out = []
        for d in schema.directives.values():
            if loc in d.locations and t.chance(25) and not any((a.type[0] == "NN" and a.default is ABSENT) for a in d.args.values()):
                out.append(DirUse(d.name, []))
        return out

    for td in schema.types.values():
        if t.chance(30):
            td.description = t.choose(DESCS)
        kind = td.kind
        if kind == "SCALAR":
            td.directives = apply("SCALAR")
        elif kind == "ENUM":
            td.directives = apply("ENUM")
            for v in td.values:
                v.directives = apply("ENUM_VALUE")
                if t.chance(25):
                    v.deprecated = True if t.chance(40) else t.choose(["old", "use B", "", "see \\u0041", NULL_REASON])
            if all(v.deprecated is not None for v in td.values):
                td.values[0].deprecated = None
        elif kind == "INPUT_OBJECT":
            td.directives = apply("INPUT_OBJECT")
            for f in td.fields.values():
                f.directives = apply("INPUT_FIELD_DEFINITION")
        elif kind in ("OBJECT", "INTERFACE"):
            td.directives = apply(kind)
            for f in td.fields.values():
                f.directives = apply("FIELD_DEFINITION")
                if t.chance(25):
                    f.description = t.choose(DESCS)
                if t.chance(20):
                    f.deprecated = True if t.chance(40) else t.choose(["old", "r e a s o n", NULL_REASON])
                if kind == "OBJECT" and t.chance(12):
                    f.hidden = True
                for a in f.args.values():
                    a.directives = apply("ARGUMENT_DEFINITION")
        elif kind == "UNION":
            td.directives = apply("UNION")
    schema.explicit_schema_def = t.chance(40)
    st = tape.sub("stray")
    if schema.explicit_schema_def:
        # with an explicit schema definition only the declared operation types are roots: an ordinary
        # object type that merely carries a default root NAME is not one
        from simv.model.schema import FieldDef, ObjectDef
        for attr, nm in (("mutation", "Mutation"), ("subscription", "Subscription")):
            if getattr(schema, attr) is None and nm not in schema.types and st.chance(15):
                o = schema.add(ObjectDef(nm))
                o.fields["stray"] = FieldDef("stray", N("Int"), {})
                o.fields["stray"].impl = "key"
    if schema.mutation and t.chance(40):
        # `extend schema { mutation: X }` is only accepted when no type carries the default root name
        rename_type(schema, "Mutation", "MutRoot")
        schema.mutation = "MutRoot"
    return schema


def rename_type(schema, old, new):
    items = list(schema.types.items())
    schema.types.clear()
    for n, td in items:
        if n == old:
            td.name = new
            n = new
        schema.types[n] = td


class Ext:
    def __init__(self, kind, target, text):
        self.kind, self.target, self.text = kind, target, text


def split_extensions(schema, tape):
    """Move members of the (complete) schema into `extend` definitions.  Returns (base_schema, [Ext])."""
    t = tape.sub("ext")
    base = copy.deepcopy(schema)
    exts = []
    for name, td in list(base.types.items()):
        if not t.chance(40):
            continue
        k = td.kind
        if k in ("OBJECT", "INTERFACE") and len(td.fields) >= 2:
            names = list(td.fields)
            moved = [n for n in names[1:] if t.chance(50)]
            if not moved:
                continue
            chunks = []
            for n in moved:
                chunks.append("  " + field_str(td.fields.pop(n)))
            impl = ""
            if k == "OBJECT" and td.interfaces and t.chance(40):
                mv = td.interfaces.pop()
                impl = " implements " + mv
            exts.append(Ext(k, name, "extend %s %s%s {\n%s\n}\n" % ("type" if k == "OBJECT" else "interface", name, impl, "\n".join(chunks))))
        elif k == "ENUM" and len(td.values) >= 2:
            moved = [td.values.pop()]
            from simv.model.schema import _dep
            exts.append(Ext(k, name, "extend enum %s {\n%s\n}\n" % (name, "\n".join(
                "  %s%s%s" % (v.name, _dep(v.deprecated), dirs_str(v.directives)) for v in moved))))
        elif k == "INPUT_OBJECT" and len(td.fields) >= 2:
            n = list(td.fields)[-1]
            f = td.fields.pop(n)
            exts.append(Ext(k, name, "extend input %s {\n  %s\n}\n" % (name, arg_str(f))))
        elif k == "UNION" and len(td.members) >= 2:
            m = td.members.pop()
            exts.append(Ext(k, name, "extend union %s = %s\n" % (name, m)))
        elif k == "SCALAR" and td.custom and base.directives:
            applied = {u.name for u in td.directives}
            ds = [d for d in base.directives.values() if "SCALAR" in d.locations and d.name not in applied and
                  not any((a.type[0] == "NN" and a.default is ABSENT) for a in d.args.values())]
            if ds:
                exts.append(Ext(k, name, "extend scalar %s @%s\n" % (name, ds[0].name)))
    # directive-only extensions of every kind (a type may be extended several times)
    kw = {"OBJECT": "type", "INTERFACE": "interface", "ENUM": "enum", "INPUT_OBJECT": "input", "UNION": "union", "SCALAR": "scalar"}
    for name, td in list(base.types.items()):
        if len(td.directives) >= 1 and t.chance(30) and not (td.kind == "SCALAR" and not td.custom):
            last = td.directives[-1]
            if last.name not in {u.name for u in td.directives[:-1]} and not any(e.target == name and ("@" + last.name) in e.text for e in exts):
                td.directives.pop()
                exts.append(Ext(td.kind, name, "extend %s %s%s\n" % (kw[td.kind], name, dirs_str([last]))))
    sd = [d for d in base.directives.values() if "SCHEMA" in d.locations and
          not any((a.type[0] == "NN" and a.default is ABSENT) for a in d.args.values())]
    if sd and t.chance(50):
        exts.append(Ext("SCHEMA", None, "extend schema @%s\n" % sd[0].name))
    if base.mutation and base.mutation != "Mutation" and t.chance(60):
        m = base.mutation
        base.mutation = None
        base.explicit_schema_def = True
        exts.append(Ext("SCHEMA", None, "extend schema {\n  mutation: %s\n}\n" % m))
    return base, exts


def chunks_of(base, exts):
    chunks = []
    sd = schema_def_str(base)
    if sd:
        chunks.append(sd)
    for d in base.directives.values():
        chunks.append(directive_def_str(d))
    for td in base.types.values():
        chunks.append(typedef_chunks(base, td))
    for e in exts:
        chunks.append(e.text)
    return chunks


# ---- expected introspection ---------------------------------------------------------------------

def type_ref(schema, ty):
    if ty[0] == "NN":
        return {"kind": "NON_NULL", "name": None, "ofType": type_ref(schema, ty[1])}
    if ty[0] == "L":
        return {"kind": "LIST", "name": None, "ofType": type_ref(schema, ty[1])}
    return {"kind": schema.kind_of(ty[1]), "name": ty[1], "ofType": None}


def dep(x):
    if x is None:
        return (False, None)
    if x is True:
        return (True, "No longer supported")
    if x is NULL_REASON:
        return (True, None)
    return (True, x)


def expected_type(schema, td, include_deprecated):
    k = td.kind
    out = {"kind": k, "name": td.name, "description": td.description, "fields": None, "inputFields": None, "interfaces": None,
           "enumValues": None, "possibleTypes": None}
    if k in ("OBJECT", "INTERFACE"):
        fields = {}
        for f in td.fields.values():
            if getattr(f, "hidden", False):
                continue
            d = dep(f.deprecated)
            if d[0] and not include_deprecated:
                continue
            fields[f.name] = {"name": f.name, "description": f.description,
                              "args": {a.name: {"name": a.name, "description": a.description, "type": type_ref(schema, a.type),
                                                "defaultValue": a.default} for a in f.args.values()},
                              "type": type_ref(schema, f.type), "isDeprecated": d[0], "deprecationReason": d[1]}
        out["fields"] = fields
        if k == "OBJECT":
            out["interfaces"] = sorted(td.interfaces)
        else:
            out["possibleTypes"] = sorted(schema.possible(td.name))
    elif k == "UNION":
        out["possibleTypes"] = sorted(td.members)
    elif k == "ENUM":
        vals = {}
        for v in td.values:
            d = dep(v.deprecated)
            if d[0] and not include_deprecated:
                continue
            vals[v.name] = {"name": v.name, "isDeprecated": d[0], "deprecationReason": d[1]}
        out["enumValues"] = vals
    elif k == "INPUT_OBJECT":
        out["inputFields"] = {f.name: {"name": f.name, "type": type_ref(schema, f.type), "defaultValue": f.default}
                              for f in td.fields.values()}
    return out


BUILTIN_SCALARS = ("Int", "Float", "String", "Boolean", "ID", "Date", "Time", "DateTime")
BUILTIN_DIRECTIVES = ("deprecated", "nonIntrospectable", "skip", "include")
