"""The adversarial value universe for resolver results (C03)."""
import datetime
import decimal
import enum
import fractions

from simv.model.exec import BadStr, FaultError, Rec


class Color(enum.Enum):
    RED = "RED"
    A = 1


class Attrs:
    def __init__(self, **kw):
        self.__dict__.update(kw)

    def __repr__(self):
        return "Attrs(%r)" % (self.__dict__,)


class StrSub(str):
    pass


class IntSub(int):
    pass


class NoStr:
    def __str__(self):
        raise RuntimeError("no str")

    def __repr__(self):
        return "<NoStr>"


class WeirdEq:
    def __eq__(self, other):
        raise RuntimeError("no eq")

    def __hash__(self):
        return 7

    def __repr__(self):
        return "<WeirdEq>"


class NpBool:
    """Like numpy.bool_: truthy / falsy, but not a Python bool (and not JSON-serialisable)."""

    def __init__(self, v):
        self.v = bool(v)

    def __bool__(self):
        return self.v

    def __repr__(self):
        return "NpBool(%r)" % self.v


class NpFloat(float):
    """Like numpy.float64: a float subclass whose comparisons return NpBool."""

    def __eq__(self, o):
        return NpBool(float.__eq__(self, o))

    def __ne__(self, o):
        return NpBool(float.__ne__(self, o))

    def __le__(self, o):
        return NpBool(float.__le__(self, o))

    def __ge__(self, o):
        return NpBool(float.__ge__(self, o))

    def __lt__(self, o):
        return NpBool(float.__lt__(self, o))

    def __gt__(self, o):
        return NpBool(float.__gt__(self, o))

    __hash__ = float.__hash__


class NpInt(int):
    """Like numpy.int64 (but an int subclass): comparisons return NpBool."""

    def __eq__(self, o):
        return NpBool(int.__eq__(self, o))

    def __ne__(self, o):
        return NpBool(int.__ne__(self, o))

    def __le__(self, o):
        return NpBool(int.__le__(self, o))

    def __ge__(self, o):
        return NpBool(int.__ge__(self, o))

    __hash__ = int.__hash__


class Floatable:
    """Defines __float__ / __int__ / __index__ / __bool__ only (duck number)."""

    def __init__(self, v):
        self.v = v

    def __float__(self):
        return float(self.v)

    def __int__(self):
        return int(self.v)

    def __index__(self):
        return int(self.v)

    def __bool__(self):
        return bool(self.v)

    def __repr__(self):
        return "Floatable(%r)" % (self.v,)


class ListSub(list):
    pass


class DictSub(dict):
    def get(self, k, d=None):
        return "from-get"


class AnyAttr:
    """__getattr__ answers any name (including _typename)."""

    def __getattr__(self, name):
        return "attr:" + name

    def __repr__(self):
        return "<AnyAttr>"


class RaisingAttr:
    def __getattr__(self, name):
        raise RuntimeError("attribute access fails: " + name)

    def __getitem__(self, k):
        raise ValueError("item access fails")

    def __repr__(self):
        return "<RaisingAttr>"


def _gen(n):
    for i in range(n):
        yield i


SCALARS = [
    lambda: None, lambda: True, lambda: False, lambda: 0, lambda: 1, lambda: -1, lambda: 2 ** 31 - 1, lambda: 2 ** 31,
    lambda: -(2 ** 31), lambda: -(2 ** 31) - 1, lambda: 2 ** 53, lambda: 2 ** 53 + 1, lambda: -(2 ** 53) - 1, lambda: 10 ** 400,
    lambda: 0.0, lambda: -0.0, lambda: 1.0, lambda: 3.0, lambda: 1.5, lambda: -2.5, lambda: 1e308, lambda: -1e308, lambda: 5e-324,
    lambda: 2147483647.0, lambda: 2147483648.0, lambda: 1e20, lambda: float("nan"), lambda: float("inf"), lambda: float("-inf"),
    lambda: "", lambda: " ", lambda: "abc", lambda: "0", lambda: "1", lambda: "-1", lambda: "3.0", lambda: "1.5", lambda: " 7 ",
    lambda: "1e3", lambda: "2147483648", lambda: "nan", lambda: "inf", lambda: "true", lambda: "True", lambda: "null",
    lambda: "٣", lambda: "１２", lambda: "été", lambda: "x:y", lambda: "A", lambda: "RED", lambda: "a",
    lambda: "\ud800", lambda: "\x00", lambda: "1_000",
    lambda: b"bytes", lambda: b"", lambda: bytearray(b"ba"),
    lambda: decimal.Decimal("3"), lambda: decimal.Decimal("1.5"), lambda: decimal.Decimal("NaN"), lambda: decimal.Decimal("1e400"),
    lambda: fractions.Fraction(3, 1), lambda: fractions.Fraction(1, 3),
    lambda: datetime.datetime(2020, 1, 2, 3, 4, 5), lambda: datetime.date(2020, 1, 2), lambda: datetime.time(1, 2, 3),
    lambda: Color.RED, lambda: Color.A, lambda: StrSub("sub"), lambda: IntSub(5), lambda: IntSub(2 ** 40),
    lambda: complex(1, 2), lambda: BadStr(), lambda: NoStr(), lambda: WeirdEq(), lambda: object,
    lambda: FaultError("adv"), lambda: ValueError("as value"), lambda: KeyError("k"), lambda: Ellipsis, lambda: NotImplemented,
    lambda: NpFloat(1.0), lambda: NpFloat(0.0), lambda: NpFloat(2147483648.0), lambda: NpFloat("nan"), lambda: NpInt(1), lambda: NpInt(0),
    lambda: NpInt(2 ** 31), lambda: NpBool(True), lambda: Floatable(1), lambda: Floatable(1.5), lambda: Floatable(2 ** 40),
    lambda: "2147483647", lambda: "2147483648", lambda: "1e2", lambda: "0x10", lambda: 2147483647.0, lambda: -2147483648.0,
    lambda: -2147483649.0, lambda: ValueError, lambda: (lambda: 1),
    # the library's own exception classes and non-Exception exceptions, as values
    # (a TartifletteError INSTANCE as a value is left out: read through two aliases it is one exception object at
    # two positions, i.e. the known shared-exception finding of C15, not a C03 matter)
    lambda: _lib().TartifletteError, lambda: _lib().MultipleException(),
    lambda: _lib().MultipleException([ValueError("inner as value")]), lambda: __import__("asyncio").CancelledError(),
    lambda: EqName("A"), lambda: EqName("RED"), lambda: EqName("True"), lambda: EqName("a"), lambda: EqName("B"),
    lambda: KeyboardInterrupt(), lambda: GeneratorExit(), lambda: _lib().MultipleException, lambda: BaseException("base as value"),
]


class EqName:
    """An object that compares and hashes equal to a string (an ORM 'choice' object standing for an enum value)."""

    def __init__(self, name):
        self.name = name

    def __eq__(self, other):
        return other == self.name if isinstance(other, str) else NotImplemented

    def __hash__(self):
        return hash(self.name)

    def __repr__(self):
        return "EqName(%r)" % self.name


def _lib():
    from tartiflette.types.exceptions import tartiflette as m
    return m

CONTAINERS = [
    lambda: [], lambda: [1, 2], lambda: [None], lambda: [[1], [2]], lambda: [[]], lambda: ["a", 1, None, 2.5],
    lambda: (), lambda: (1, 2), lambda: {1, 2}, lambda: frozenset({"a"}), lambda: range(3), lambda: _gen(2),
    lambda: {}, lambda: {"a": 1}, lambda: {"_typename": "Nope"}, lambda: {"_typename": 5}, lambda: {"_typename": None},
    lambda: {"name": 1, "id": [1], "a": {"a": 1}, "x": None, "y": "s"}, lambda: Attrs(a=1, b="x", name=None, id=3.5),
    lambda: Attrs(_typename="T0", a=[1, 2]), lambda: Rec(), lambda: iter([1, 2]), lambda: {"a": float("nan")},
    lambda: [float("nan")], lambda: [float("inf"), 1], lambda: {"a": b"x"}, lambda: [b"x"], lambda: dict.fromkeys("abcdefgh", 10 ** 400),
    lambda: ListSub([1, 2]), lambda: ListSub(), lambda: DictSub(a=1, _typename="T0"), lambda: AnyAttr(), lambda: RaisingAttr(),
    lambda: __import__("collections").deque([1, 2]), lambda: __import__("collections").UserList([1]), lambda: __import__("array").array("i", [1, 2]),
    lambda: __import__("types").MappingProxyType({"a": 1}), lambda: __import__("collections").OrderedDict(a=1),
]


def adversarial(t):
    """A fresh adversarial value (generators / iterators must not be shared between uses)."""
    if t.chance(65):
        return SCALARS[t.draw(len(SCALARS))]()
    return CONTAINERS[t.draw(len(CONTAINERS))]()
