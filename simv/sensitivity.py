"""Sensitivity self-test: hand-written mutants of tartiflette applied to a scratch copy (never to
/repo), each of which the named checks must report.  ./check selftest sensitivity [mutant ids...]"""
import json
import os
import shutil
import subprocess
import sys
import tempfile
import time

VERIF = os.path.dirname(os.path.dirname(os.path.abspath(__file__)))
REPO = os.environ.get("VERIF_REPO", "/repo")

# (id, [checks expected to catch it], file, old, new)
MUTANTS = [
    ("serial-mutation-gather", ["C09"], "tartiflette/execution/execute.py",
     'if operation.operation_type == "mutation"', 'if operation.operation_type == "never"'),
    ("drop-index-reorder", ["C08", "C01"], "tartiflette/execution/execute.py",
     "        for index, result in zip(to_await, awaited):\n            results[index] = result",
     "        for index, result in zip(sorted(to_await, reverse=True), awaited):\n            results[index] = result"),
    ("nonnull-check-inverted", ["C02"], "tartiflette/coercers/outputs/common.py",
     "    if return_type.is_non_null_type:\n        raise error", "    if not return_type.is_non_null_type and False:\n        raise error"),
    ("type-condition-ignored", ["C01"], "tartiflette/execution/collect.py",
     "    if not type_condition_node:\n        return True", "    if True:\n        return True"),
    ("int-max-off-by-one", ["C05", "C04"], "tartiflette/scalar/builtins/int.py",
     "_MAX_INT = 2_147_483_647", "_MAX_INT = 2_147_483_646"),
    ("list-path-index-lost", ["C02"], "tartiflette/coercers/outputs/list_coercer.py",
     "                Path(path, index),\n                item_type,\n                inner_coercer,\n            )\n            for index, item in enumerate(result)",
     "                Path(path, 0),\n                item_type,\n                inner_coercer,\n            )\n            for index, item in enumerate(result)"),
    ("alias-ignored", ["C01"], "tartiflette/execution/collect.py",
     "    return node.alias.value if node.alias else node.name.value", "    return node.name.value"),
    ("shared-errors-list", ["C15"], "tartiflette/execution/context.py",
     "        self.errors: List[\"TartifletteError\"] = []", "        self.errors: List[\"TartifletteError\"] = _SHARED_ERRORS\n\n\n_SHARED_ERRORS = []\n\n\nclass _Unused:\n    def _unused(self):\n        pass"),
    ("cached-errors-mutated", ["C16"], "tartiflette/engine.py",
     "        # Goes through potential schema directives and finish in self._perform_query\n",
     "        if errors:\n            errors.append(errors[0])\n"),
    ("skipped-field-pruned-from-cached-document", ["C16", "C15"], "tartiflette/execution/collect.py",
     "            if not await should_include_node(execution_context, selection):\n                continue\n            fields.setdefault",
     "            if not await should_include_node(execution_context, selection):\n                selection_set.selections = [s for s in selection_set.selections if s is not selection]\n                continue\n            fields.setdefault"),
    ("directive-order-not-reversed", ["C13"], "tartiflette/utils/directives.py",
     "    for directive in reversed(directives_definition):", "    for directive in directives_definition:"),
    ("type-hooks-twice-for-variables", ["C13"], "tartiflette/coercers/literals/directives_coercer.py",
     "    if not directives or (\n        isinstance(node, VariableNode) and not is_input_field\n    ):", "    if not directives:"),
    ("subscription-ends-on-failing-event", ["C14"], "tartiflette/engine.py",
     "            yield await execute(\n                self._schema,\n                document,\n                self._build_response,\n                payload,\n                context,\n                variables,\n                operation_name,\n            )",
     "            _res = await execute(\n                self._schema,\n                document,\n                self._build_response,\n                payload,\n                context,\n                variables,\n                operation_name,\n            )\n            yield _res\n            if _res.get(\"data\") is None and _res.get(\"errors\"):\n                return"),
    ("subscription-ignores-payload", ["C14"], "tartiflette/engine.py",
     "                self._build_response,\n                payload,\n", "                self._build_response,\n                initial_value,\n"),
    ("registry-bakes-every-schemas-resolvers", ["C17"], "tartiflette/schema/registry.py",
     "        schema_info = SchemaRegistry._schemas[schema.name]\n        for object_id in _SCHEMA_OBJECT_IDS:\n            for obj in schema_info.get(object_id, {}).values():\n                obj.bake(schema)",
     "        for schema_info in list(SchemaRegistry._schemas.values()):\n            for object_id in _SCHEMA_OBJECT_IDS:\n                for obj in schema_info.get(object_id, {}).values():\n                    try:\n                        obj.bake(schema)\n                    except Exception:  # pylint: disable=broad-except\n                        pass"),
    ("type-resolver-registered-under-default-name", ["C17"], "tartiflette/resolver/type_resolver.py",
     "        SchemaRegistry.register_type_resolver(self._schema_name, self)", "        SchemaRegistry.register_type_resolver(\"default\", self)"),
    ("error-coercers-gathered-in-reverse", ["C18"], "tartiflette/execution/response.py",
     "await asyncio.gather(*[error_coercer(error) for error in errors])", "(await asyncio.gather(*[error_coercer(error) for error in reversed(errors)]))[::-1]"),
    ("unknown-operation-name-runs-first-operation", ["C18"], "tartiflette/execution/context.py",
     "        operation = operations.get(operation_name)", "        operation = operations.get(operation_name) or next(iter(operations.values()), None)"),
    ("execute-catch-all-narrowed", ["C18"], "tartiflette/engine.py",
     "        except Exception as e:\n            if not isinstance(e, TartifletteError):", "        except (ValueError, KeyError) as e:\n            if not isinstance(e, TartifletteError):"),
    ("ctor-default-resolver-ignored-by-cook", ["C01"], "tartiflette/engine.py",
     "        custom_default_resolver = (\n            custom_default_resolver or self._custom_default_resolver\n        )",
     "        custom_default_resolver = custom_default_resolver"),
    ("custom-default-type-resolver-dropped", ["C01"], "tartiflette/engine.py",
     "            custom_default_resolver,\n            custom_default_type_resolver,\n            custom_default_arguments_coercer,",
     "            custom_default_resolver,\n            None,\n            custom_default_arguments_coercer,"),
    ("include-inverted", ["C01"], "tartiflette/directive/builtins/include.py",
     'if not directive_args["if"]:', 'if directive_args["if"] is None:'),
]


def apply_mutant(m, dest):
    mid, _, rel, old, new = m
    path = os.path.join(dest, rel)
    with open(path) as f:
        s = f.read()
    if old not in s:
        raise SystemExit("mutant %s: pattern not found in %s" % (mid, rel))
    with open(path, "w") as f:
        f.write(s.replace(old, new, 1))


def run_mutant(m, runs=None):
    mid, checks = m[0], m[1]
    scratch = tempfile.mkdtemp(prefix="simv_mut_%s_" % mid)
    out = {"mutant": mid, "file": m[2], "checks": {}}
    try:
        shutil.copytree(os.path.join(REPO, "tartiflette"), os.path.join(scratch, "tartiflette"),
                        ignore=shutil.ignore_patterns("__pycache__"))
        apply_mutant(m, scratch)
        for cid in checks:
            if not os.path.exists(os.path.join(VERIF, "simv", "checks", cid.lower() + ".py")):
                out["checks"][cid] = {"caught": None, "note": "check not built"}
                continue
            env = dict(os.environ)
            env.update(VERIF_REPO=scratch, VERIF_EVIDENCE_DIR=os.path.join(scratch, "evidence"),
                       VERIF_REPLAY_DIR=os.path.join(scratch, "replays"), VERIF_BUDGET_S="60", VERIF_NO_SHRINK="1")
            t0 = time.time()
            cmd = [os.path.join(VERIF, "check"), "run", cid, "--tier", "quick"]
            if runs:
                cmd += ["--runs", str(runs)]
            p = subprocess.run(cmd, capture_output=True, text=True, env=env, timeout=900)
            lines = [l for l in p.stdout.splitlines() if l.startswith("VIOLATION") or l.startswith("  clause=")]
            out["checks"][cid] = {"caught": p.returncode in (1, 2) and any(l.startswith("VIOLATION") for l in p.stdout.splitlines()), "exit": p.returncode, "wall_s": round(time.time() - t0, 1),
                                  "first": lines[:2] and lines[1][:300] if len(lines) > 1 else (p.stdout[-300:] + p.stderr[-300:])}
    finally:
        shutil.rmtree(scratch, ignore_errors=True)
    return out


def main(argv):
    want = set(a for a in argv if not a.startswith("--"))
    runs = None
    for a in argv:
        if a.startswith("--runs="):
            runs = int(a.split("=")[1])
    results = []
    ok = True
    for m in MUTANTS:
        if want and m[0] not in want:
            continue
        r = run_mutant(m, runs)
        results.append(r)
        for cid, c in r["checks"].items():
            print("mutant %-28s check %s: %s  %s" % (m[0], cid, {True: "CAUGHT", False: "MISSED", None: "n/a"}[c["caught"]], c.get("first", "")[:160]))
            if c["caught"] is False:
                ok = False
    if not want:
        os.makedirs(os.path.join(VERIF, "selftest"), exist_ok=True)
        with open(os.path.join(VERIF, "selftest", "sensitivity.json"), "w") as f:
            json.dump(results, f, indent=1)
    return 0 if ok else 1
