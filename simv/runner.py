"""Parallel seeded runner, evidence writer, replay files, tape-level minimisation, known findings."""
import concurrent.futures as cf
import faulthandler
import hashlib
import json
import multiprocessing
import os
import subprocess
import sys
import time
import traceback

VERIF = os.path.dirname(os.path.dirname(os.path.abspath(__file__)))
SEED_MULT = 1_000_003


def seed_of(base, i):
    return base * SEED_MULT + i


# ---- worker side ---------------------------------------------------------------------------------

_MOD = None


def _load(check_id):
    global _MOD
    import importlib

    _MOD = importlib.import_module("simv.checks." + check_id.lower())
    return _MOD


def safe_run(mod, seed, preset=None, tier="quick", want_case=False):
    try:
        r = mod.run_one(seed, preset, tier, want_case)
        r["seed"] = seed
        return r
    except Exception:  # noqa: BLE001 -- a harness error, never a property verdict
        return {"seed": seed, "harness_error": traceback.format_exc(), "viol": []}


def _work(args):
    check_id, seeds, tier = args
    mod = _MOD if (_MOD is not None and _MOD.ID == check_id) else _load(check_id)
    out = []
    for s in seeds:
        faulthandler.dump_traceback_later(180, exit=True)
        r = safe_run(mod, s, None, tier)
        faulthandler.cancel_dump_traceback_later()
        if not r.get("viol") and not r.get("harness_error"):
            r.pop("tape", None)
            r.pop("case", None)
        out.append(r)
    return out


# ---- known findings ----------------------------------------------------------------------------------

def load_known():
    # VERIF_KNOWN_FILE is only used by tools/make_known_replay.py (to re-demonstrate a listed finding)
    p = os.environ.get("VERIF_KNOWN_FILE") or os.path.join(VERIF, "known_findings.json")
    if not os.path.exists(p):
        return []
    with open(p) as f:
        return json.load(f).get("findings", [])


def match_known(known, prop, viol):
    for k in known:
        if k.get("status") != "known" or k.get("property") != prop:
            continue
        if k.get("clause") != viol["clause"]:
            continue
        sig = viol.get("sig", {})
        if all(sig.get(key) == val for key, val in k.get("match", {}).items()):
            return k
    return None


# ---- minimisation ------------------------------------------------------------------------------------

def _sigkey(v):
    return (v["clause"], json.dumps(v.get("sig", {}), sort_keys=True, default=repr))


def shrink(mod, seed, tape, target, tier, max_evals=400, max_s=40.0):
    """Tape-level shrinking while the same (clause, signature) violation persists.

    Passes, cheapest first: drop whole streams (schedule, configuration, then all per-position data
    streams at once), then per stream zero spans (keeps later draws aligned), delete spans, and
    zero single entries.  A tape that runs out yields 0, the simplest choice."""
    t0 = time.time()
    evals = [0]
    want = _sigkey(target)

    def out_of_budget():
        return evals[0] >= max_evals or time.time() - t0 > max_s

    def test(cand):
        if out_of_budget():
            return None
        evals[0] += 1
        r = safe_run(mod, seed, cand, tier)
        for v in r.get("viol", []):
            if _sigkey(v) == want:
                return r
        return None

    state = {"best": {k: (list(v) if not k.startswith("@") else v) for k, v in tape.items()}}

    def accept(r, cand):
        state["best"] = {k: (list(v) if not k.startswith("@") else v) for k, v in (r.get("tape") or cand).items()}

    def try_cand(cand):
        r = test(cand)
        if r is not None:
            accept(r, cand)
            return True
        return False

    def group(prefixes):
        return [k for k in state["best"] if any(k == p or k.startswith(p) for p in prefixes)]

    # A. whole groups of streams
    for prefixes in (("sched",), ("cfg",), ("data",), ("fault",), ("vars",), ("solo", "after", "twin", "fresh", "probe")):
        ks = group(prefixes)
        if ks and any(state["best"][k] for k in ks):
            cand = {k: v for k, v in state["best"].items() if k not in ks}
            try_cand(cand)
    # B. single streams dropped
    for k in sorted(state["best"], key=lambda k: (len(state["best"][k]), k)):
        if out_of_budget():
            break
        if k in state["best"] and state["best"][k] and not k.startswith("@"):
            cand = {k2: v for k2, v in state["best"].items() if k2 != k}
            try_cand(cand)

    def order():
        b = state["best"]
        first = [k for k in b if k.startswith(("sched", "cfg", "fault", "ops", "hist", "mut", "rewrite", "files", "glob", "ext", "intro", "vars"))]
        mid = [k for k in b if k.startswith("data")]
        last = [k for k in b if k.startswith(("doc", "schema"))]
        rest = [k for k in b if k not in first + mid + last and not k.startswith("@")]
        return sorted(first) + sorted(rest) + sorted(mid) + sorted(last)

    for rounds in range(2):
        improved = False
        for stream in order():
            if out_of_budget():
                break
            for mode in ("zero", "delete"):
                vals = state["best"].get(stream, [])
                size = max(1, len(vals) // 2)
                while size >= 1 and vals and not out_of_budget():
                    i = 0
                    while i < len(vals) and not out_of_budget():
                        if mode == "zero":
                            if not any(vals[i:i + size]):
                                i += size
                                continue
                            nv = vals[:i] + [0] * len(vals[i:i + size]) + vals[i + size:]
                        else:
                            nv = vals[:i] + vals[i + size:]
                        cand = dict(state["best"])
                        cand[stream] = nv
                        if try_cand(cand):
                            improved = True
                            vals = state["best"].get(stream, [])
                            if mode == "zero":
                                i += size
                        else:
                            i += size
                    if size == 1:
                        break
                    size //= 2
                    if len(vals) > 64 and size < len(vals) // 16:
                        break  # long structural streams: coarse passes only
        if not improved:
            break
    # C. model-level reduction of the document (checks built on gen_case): remove selections,
    #    directives, fragments, operations while the violation persists; the reduced model is stored
    #    in the replay tape under "@doc" and replaces the generated document on replay
    r0 = safe_run(mod, seed, state["best"], tier)
    model = next((r0.get("doc_model") for _ in [0] if r0.get("doc_model")), None)
    if model is not None and any(_sigkey(v) == want for v in r0.get("viol", [])):
        from simv.model.document import doc_reductions
        t1 = time.time()
        budget_s = max_s
        progress = True
        while progress and time.time() - t1 < budget_s:
            progress = False
            for cand_model in doc_reductions(model):
                if time.time() - t1 > budget_s:
                    break
                cand = dict(state["best"])
                cand["@doc"] = cand_model
                evals[0] += 1
                r = safe_run(mod, seed, cand, tier)
                if any(_sigkey(v) == want for v in r.get("viol", [])):
                    model = cand_model
                    state["best"] = {k: (list(v) if not k.startswith("@") else v) for k, v in (r.get("tape") or cand).items()}
                    state["best"]["@doc"] = cand_model
                    progress = True
                    break
    best = {k: v for k, v in state["best"].items() if v}
    final = safe_run(mod, seed, best, tier, want_case=True)
    ok = any(_sigkey(v) == want for v in final.get("viol", []))
    if not ok:
        final = safe_run(mod, seed, tape, tier, want_case=True)
        best = tape
    return best, final, evals[0]


def write_replay(mod, seed, tape, result, viol, tier, minimised_evals=None):
    d = os.path.join(os.environ.get("VERIF_REPLAY_DIR") or os.path.join(VERIF, "replays"), mod.ID)
    os.makedirs(d, exist_ok=True)
    body = {
        "property": mod.ID,
        "tier": tier,
        "seed": seed,
        "tape": tape,
        "violation": {"clause": viol["clause"], "detail": viol["detail"], "sig": viol.get("sig", {})},
        "case": result.get("case"),
        "schedule_trace": result.get("trace"),
        "event_digest": result.get("digest"),
        "minimisation_evals": minimised_evals,
        "repo_head": _repo_head(),
        "verif_head": _verif_head(),
        "note": "a replay tape is interpreted by the generators of the /verif commit named in verif_head; the rendered case below documents the failing input independently of it",
    }
    h = hashlib.sha256(json.dumps([viol["clause"], viol.get("sig", {}), tape], sort_keys=True, default=repr).encode()).hexdigest()[:8]
    path = os.path.join(d, "%d-%s.json" % (seed, h))
    with open(path, "w") as f:
        json.dump(body, f, indent=1, default=repr)
    return path


def _verif_head():
    try:
        return subprocess.run(["git", "-C", VERIF, "rev-parse", "--short", "HEAD"], capture_output=True, text=True, timeout=10).stdout.strip()
    except Exception:  # noqa: BLE001
        return "unknown"


def _repo_head():
    from simv import boot

    return boot.repo_head()


def replay(path):
    with open(path) as f:
        body = json.load(f)
    mod = _load(body["property"])
    if body["violation"]["clause"] == ENV_CLAUSE:
        a, _ = _fresh_digests(body["property"], body.get("tier", "quick"), [body["seed"]], True)
        b, _ = _fresh_digests(body["property"], body.get("tier", "quick"), [body["seed"]], False)
        if a is not None and b is not None and a.get(body["seed"]) != b.get(body["seed"]):
            print("REPRODUCED property=%s clause=%s digest_match=%s" % (body["property"], ENV_CLAUSE, b.get(body["seed"]) == body.get("event_digest")))
            print("VIOLATION property=%s replay=%s" % (body["property"], path))
            return 1
        print("NOT-REPRODUCED property=%s (the run no longer depends on -O / the locale)" % body["property"])
        return 0
    r = safe_run(mod, body["seed"], body["tape"], body.get("tier", "quick"), want_case=True)
    if r.get("harness_error"):
        print("HARNESS-ERROR during replay:\n" + r["harness_error"])
        return 2
    want = _sigkey(body["violation"])
    hit = [v for v in r.get("viol", []) if _sigkey(v) == want]
    if hit:
        same_digest = r.get("digest") == body.get("event_digest")
        print("REPRODUCED property=%s clause=%s digest_match=%s" % (body["property"], hit[0]["clause"], same_digest))
        print("  " + hit[0]["detail"][:1500])
        if not same_digest and body.get("repo_head") == _repo_head():
            print("HARNESS-ERROR: same violation but a different event digest on the same repository head "
                  "(determinism leak)")
            return 2
        print("VIOLATION property=%s replay=%s" % (body["property"], path))
        return 1
    print("NOT-REPRODUCED property=%s (the recorded violation %s does not occur on this tree)" % (
        body["property"], body["violation"]["clause"]))
    for v in r.get("viol", [])[:3]:
        print("  other violation: %s %s" % (v["clause"], v["detail"][:300]))
    return 0


# ---- parent side ------------------------------------------------------------------------------------

def digests_cmd(check_id, seeds, tier):
    mod = _load(check_id)
    for s in seeds:
        r = safe_run(mod, s, None, tier)
        print("%d %s" % (s, r.get("digest") or ("HARNESS-ERROR" if r.get("harness_error") else "none")))
    return 0


ENV_CLAUSE = "depends_on_interpreter_flags_or_locale"


def _fresh_digests(check_id, tier, seeds, other_environment):
    """Digests of the given seeds computed in a fresh interpreter with another PYTHONHASHSEED and, when asked, under
    another process environment: asserts stripped (-O) and the C locale."""
    env = dict(os.environ)
    env["PYTHONHASHSEED"] = "12345"
    env["VERIF_NO_REEXEC"] = "1"
    flags = ["-X", "faulthandler"]
    if other_environment:
        env.update(LC_ALL="C", LANG="C")
        flags = ["-O"] + flags
    cmd = [sys.executable] + flags + [os.path.join(VERIF, "simv", "cli.py"), "digests", check_id, tier] + [str(s) for s in seeds]
    try:
        p = subprocess.run(cmd, capture_output=True, text=True, timeout=300, env=env)
    except subprocess.TimeoutExpired:
        return None, "timeout"
    got = {}
    for line in p.stdout.splitlines():
        parts = line.split()
        if len(parts) == 2 and parts[0].lstrip("-").isdigit():
            got[int(parts[0])] = parts[1]
    return got, p.stderr[-400:]


def determinism_selfcheck(check_id, tier, seeds, first_results):
    """Re-run a few seeds in a fresh interpreter with another PYTHONHASHSEED, asserts stripped (-O) and the C locale;
    the digests must agree.  A disagreement that disappears in a fresh interpreter WITHOUT the other flags / locale is
    not a determinism leak of the harness but behaviour of the code under test that depends on the process environment."""
    got, err = _fresh_digests(check_id, tier, seeds, True)
    if got is None:
        return {"ok": False, "error": err}
    mism = [s for s in seeds if got.get(s) != first_results.get(s)]
    out = {"ok": not mism and len(got) == len(seeds), "seeds": len(seeds), "mismatching_seeds": mism,
           "fresh_interpreter_hashseed": 12345, "fresh_interpreter_flags": "-O, LC_ALL=C", "stderr_tail": err if mism else ""}
    if mism:
        plain, err2 = _fresh_digests(check_id, tier, seeds, False)
        if plain is not None and all(plain.get(s) == first_results.get(s) for s in seeds):
            out.update(ok=True, environment_dependent_seeds=mism)
    return out


def run_check(check_id, tier="quick", base_seed=0, jobs=None, budget_s=None, runs=None):
    t0 = time.time()
    mod = _load(check_id)
    jobs = jobs or int(os.environ.get("VERIF_JOBS", "16"))
    if runs is None:
        runs = mod.QUICK_RUNS if tier == "quick" else None
    if budget_s is None:
        budget_s = float(os.environ.get("VERIF_BUDGET_S", "75" if tier == "quick" else "900"))
    chunk = getattr(mod, "CHUNK", 25)
    ctx = multiprocessing.get_context("fork")
    results = []
    harness_errors = []
    next_i = 0
    pending = set()
    broken = None
    with cf.ProcessPoolExecutor(max_workers=jobs, mp_context=ctx) as ex:
        def submit():
            nonlocal next_i
            if runs is not None and next_i >= runs:
                return False
            if time.time() - t0 > budget_s:
                return False
            hi = next_i + chunk if runs is None else min(runs, next_i + chunk)
            seeds = [seed_of(base_seed, i) for i in range(next_i, hi)]
            next_i = hi
            pending.add(ex.submit(_work, (check_id, seeds, tier)))
            return True

        for _ in range(jobs * 2):
            if not submit():
                break
        while pending:
            done, _ = cf.wait(pending, timeout=600, return_when=cf.FIRST_COMPLETED)
            if not done:
                broken = "no worker finished a chunk within 600 s"
                break
            for fut in done:
                pending.discard(fut)
                try:
                    for r in fut.result():
                        if r.get("harness_error"):
                            harness_errors.append(r)
                        else:
                            results.append(r)
                except Exception as e:  # noqa: BLE001
                    broken = "worker died: %r" % (e,)
                submit()
            if broken:
                break
        if broken:
            for p in pending:
                p.cancel()
            ex.shutdown(wait=False, cancel_futures=True)
    if broken:
        print("HARNESS-ERROR: " + broken)
        return 2
    results.sort(key=lambda r: r["seed"])
    wall_runs = time.time() - t0

    # determinism self-check on the first seeds of this very batch
    first = {r["seed"]: r.get("digest") for r in results[:8]}
    det = determinism_selfcheck(check_id, tier, sorted(first), first) if first else {"ok": False, "error": "no runs"}

    # violations
    known = load_known()
    groups = {}
    for r in results:
        for v in r.get("viol", []):
            groups.setdefault(_sigkey(v), []).append((r, v))
    lines = []
    n_viol = 0
    known_matched = []
    exit_code = 0
    t_min = time.time()
    n_min = 0
    for key, items in sorted(groups.items()):
        r, v = items[0]
        k = match_known(known, mod.ID, v)
        if k is not None:
            known_matched.append({"id": k.get("id"), "count": len(items), "example_seed": r["seed"]})
            lines.append("KNOWN-FINDING: property=%s %s (%d runs, e.g. seed %d)" % (mod.ID, k.get("what", k.get("id")), len(items), r["seed"]))
            continue
        n_viol += len(items)
        tape = r.get("tape") or {}
        no_shrink = os.environ.get("VERIF_NO_SHRINK")
        budget_total = 45 if tier == "quick" else 240
        if not no_shrink and time.time() - t_min < budget_total and n_min < 4:
            n_min += 1
            best, final, evals = shrink(mod, r["seed"], tape, v, tier, max_s=20.0 if tier == "quick" else 60.0)
        else:
            best, final, evals = tape, safe_run(mod, r["seed"], tape, tier, want_case=True), 0
        vv = next((x for x in final.get("viol", []) if _sigkey(x) == key), v)
        path = write_replay(mod, r["seed"], best, final, vv, tier, evals)
        lines.append("VIOLATION property=%s replay=%s" % (mod.ID, path))
        lines.append("  clause=%s runs=%d seed=%d: %s" % (v["clause"], len(items), r["seed"], vv["detail"][:600]))
        exit_code = 1

    # evidence
    nontriv = {}
    nontriv_n = {}
    for r in results:
        if r.get("nontrivial"):
            if r.get("case_digest") not in nontriv:
                nontriv[r.get("case_digest")] = r["seed"]
                nontriv_n[r.get("case_digest")] = int(r.get("distinct_n", 1))
    sample_seeds = sorted(nontriv.values())[:3] or [r["seed"] for r in results[:2]]
    samples = []
    for s in sample_seeds:
        rr = safe_run(mod, s, None, tier, want_case=True)
        if rr.get("case") is not None:
            samples.append({"seed": s, "case": rr["case"]})
    agg = {}
    for name in ("faults", "probes", "metrics", "sched_kinds"):
        tot = {}
        for r in results:
            for k2, n in (r.get(name) or {}).items():
                tot[k2] = tot.get(k2, 0) + n
        agg[name] = dict(sorted(tot.items()))
    wall = time.time() - t0
    ev = {
        "property_id": mod.ID,
        "tier": tier,
        "seed": base_seed,
        "level": mod.LEVEL,
        "coverage": {
            "evaluations": sum(int(r.get("evals", 1)) for r in results),
            "distinct_nontrivial": sum(nontriv_n.values()),
            "runs": len(results),
            "rule": mod.RULE,
            "samples": samples,
            "seeds": {"first": results[0]["seed"] if results else None, "last": results[-1]["seed"] if results else None,
                      "derivation": "seed_i = VERIF_SEED * %d + i" % SEED_MULT},
            "runs_per_hour": int(len(results) / max(wall_runs, 1e-6) * 3600),
            "simulated_seconds": round(sum(r.get("vsec", 0.0) for r in results), 3),
            "faults_fired": agg["faults"],
            "interleavings": {
                "distinct_release_orders": len({r.get("order") for r in results if r.get("order")}),
                "release_decisions": sum(r.get("releases", 0) for r in results),
                "release_decisions_with_choice": sum(r.get("multi_choice", 0) for r in results),
                "scheduler_kinds": agg["sched_kinds"],
                **{k2: v2 for k2, v2 in agg["metrics"].items() if k2.startswith("dfs_")},
            },
            "probes": agg["probes"],
            "metrics": agg["metrics"],
            "components": dict(COMPONENTS, stub_conformance=_stub_conformance()),
            "determinism_selfcheck": det,
            "known_findings_matched": known_matched,
            "harness_errors": len(harness_errors),
            "exhaustive": False,
        },
        "assumptions": mod.ASSUMPTIONS,
        "wall_s": round(wall, 2),
        "violations": n_viol,
    }
    evdir = os.environ.get("VERIF_EVIDENCE_DIR") or os.path.join(VERIF, "evidence")
    os.makedirs(evdir, exist_ok=True)
    with open(os.path.join(evdir, mod.ID + ".json"), "w") as f:
        json.dump(ev, f, indent=1, default=repr)
    for ln in lines:
        print(ln)
    zero = [k2 for k2, n in agg["probes"].items() if n == 0]
    print("%s %s: runs=%d nontrivial_distinct=%d violations=%d known=%d wall=%.1fs det=%s" % (
        mod.ID, tier, len(results), len(nontriv), n_viol, len(known_matched), wall, det.get("ok")))
    if zero:
        print("WARNING: probes never hit: %s" % ", ".join(zero))
    if harness_errors:
        print("HARNESS-ERROR: %d runs raised inside the harness; first:\n%s" % (
            len(harness_errors), harness_errors[0]["harness_error"]))
        return 2
    if not det.get("ok"):
        print("HARNESS-ERROR: determinism self-check failed: %r" % (det,))
        return 2
    if det.get("environment_dependent_seeds"):
        seed0 = det["environment_dependent_seeds"][0]
        viol = {"clause": ENV_CLAUSE, "sig": {}, "detail": "the run with seed %d gives another response / event history in an interpreter "
                "started with -O under LC_ALL=C than in the default one (same harness, same tape): behaviour that depends on "
                "stripped asserts or on the locale" % seed0}
        path = write_replay(mod, seed0, None, {"digest": first.get(seed0)}, viol, tier)
        print("VIOLATION property=%s replay=%s" % (mod.ID, path))
        print("  clause=%s seed=%d: %s" % (ENV_CLAUSE, seed0, viol["detail"]))
        return 1
    if not results:
        print("HARNESS-ERROR: no runs completed")
        return 2
    return exit_code


def _stub_conformance():
    """Recorded result of `./check selftest stubconf` (the repository's own suites run on the stand-in)."""
    p = os.path.join(VERIF, "selftest", "stub_conformance.json")
    try:
        with open(p) as f:
            return [{"suite": x["suite"], "summary": x["summary"]} for x in json.load(f)] + [
                "byte-exact vectors of test_parse_to_json_ast are checked by `./check selftest setup`"]
    except Exception:  # noqa: BLE001
        return "not recorded"


COMPONENTS = {
    "real": [
        "JSON AST -> DocumentNode transformer and all validation rules", "query cache", "SDL parser (lark)",
        "schema build / validate / bake, registry, introspection",
        "variable / argument / literal / output coercers, scalars, directives, execution, subscriptions",
    ],
    "stub": ["GraphQL query lexer/parser: libgraphqlparser.so is absent; simv/gqlstub.py emits the same JSON AST"],
    "simulated": ["asyncio event loop and clock (SimLoop, virtual time)", "directory enumeration order (C11)"],
    "actors": ["resolvers, type resolvers, directive hooks, scalars, subscription sources, error coercers, cache decorators"],
}
