"""Sequential reference executor: a direct transcription of the June-2018 spec, sections 6.1-6.4.

It runs *before* the engine, decides every resolver result (drawing from the tape's data stream),
builds the data tree the harness actors will serve, and predicts: the response data, the failure
sites with the position each one nulls, and the resolver calls with their coerced arguments.
It shares no code with tartiflette.
"""
import math
import zlib

from simv.model.coerce import (
    ArgError, coerce_argument_values, coerce_variable_values,
)
from simv.model.schema import named, is_nn, nullable

ROOT = ("<root>",)  # "position" of the whole data


class Rec:
    """Attribute-style data object that also supports obj[key] for key-style fields."""

    def __init__(self):
        object.__setattr__(self, "_keys", {})

    def __getitem__(self, k):
        return self._keys[k]

    def __repr__(self):
        return "<%s %s>" % (type(self).__name__, {k: v for k, v in self.__dict__.items() if k != "_keys"})


class FalsyRec(Rec):
    """A data object that is falsy (bool() is False, len() is 0) but carries attributes and keys."""

    def __bool__(self):
        return False

    def __len__(self):
        return 0


class DictRec(dict):
    """A dict SUBCLASS that also carries attributes (an application row type): key-style fields are items,
    attribute-style fields live in the instance __dict__."""


_NAMED_REC = {}


def named_rec_class(name):
    c = _NAMED_REC.get(name)
    if c is None:
        c = _NAMED_REC[name] = type(name, (Rec,), {})
    return c


def peek(obj, name, default=None):
    """Read a hint (key or attribute) from a data object of either style."""
    if isinstance(obj, DictRec) and name in obj.__dict__:
        return obj.__dict__[name]
    if isinstance(obj, dict):
        return obj.get(name, default)
    if isinstance(obj, Rec):
        if name in obj.__dict__:
            return obj.__dict__[name]
        return obj._keys.get(name, default)
    return default


def poke(obj, name, value, attr=False):
    if isinstance(obj, DictRec) and attr:
        obj.__dict__[name] = value
    elif isinstance(obj, dict):
        obj[name] = value
    elif attr:
        obj.__dict__[name] = value
    else:
        obj._keys[name] = value


class BadStr:
    """A value no String coercion can serialise."""

    def __str__(self):
        raise ValueError("BadStr cannot be converted")

    def __repr__(self):
        return "<BadStr>"


class FieldFail(Exception):
    def __init__(self, path, kind):
        super().__init__(kind)
        self.path = path
        self.kind = kind


class Propagate(Exception):
    def __init__(self, errs):
        super().__init__("propagate")
        self.errs = errs


class ExpErr:
    """An expected error: where it happens, what kind, which position it nulls."""

    __slots__ = ("path", "kind", "token", "nulls", "tf")

    def __init__(self, path, kind, token=None, tf=None):
        self.path = path
        self.kind = kind
        self.token = token
        self.nulls = None
        self.tf = tf  # (message, extensions) for TartifletteError-derived raises

    def __repr__(self):
        return "ExpErr(%r,%s,nulls=%r)" % (self.path, self.kind, self.nulls)


class Call:
    __slots__ = ("path", "coord", "parent", "args", "arg_error")

    def __init__(self, path, coord, parent, args, arg_error=None):
        self.path, self.coord, self.parent, self.args, self.arg_error = path, coord, parent, args, arg_error


FIELD_FAULTS = ("raise", "raise_tf", "return_exc", "null", "bad_value", "raise_shared", "raise_odd")
ITEM_FAULTS = ("null", "return_exc", "bad_value")


class Plan:
    """Everything the reference decides for one request."""

    def __init__(self):
        self.op = None
        self.op_error = None  # None | "unknown" | "ambiguous"
        self.var_bad = []
        self.var_ambiguous = []
        self.variables = {}
        self.data = None
        self.errors = []  # ExpErr, in discovery order
        self.calls = []
        self.results = {}  # resolver path -> ("value", raw) | ("raise", kind, token, tf)
        self.root_value = None
        self.field_nodes = {}  # path without indices -> [Field nodes]
        self.instances = 0
        self.positions = []  # (path, type, "field"|"item", is_resolver) every completed position
        self.faults_fired = {}
        self.abstract_levels = {}
        self.type_resolver_sites = []  # positions completed through a harness type resolver
        self.type_faults = {}  # path -> library error the type resolver raises there
        self.default_type_resolutions = 0  # abstract positions resolved by the default type resolver
        self.probes = {}
        self.refused = False  # request refused before execution (operation / variables)
        self.over = {}
        self.no_variables = False  # no operation of the document declares a variable
        self.item_sites = {}  # item position -> (list object, index)
        self.default_sites = {}  # default-resolved field position -> (parent object, FieldDef)

    def probe(self, n):
        self.probes[n] = self.probes.get(n, 0) + 1


class RefExec:
    def __init__(self, schema, doc, tape, stream="data", faults=None, knobs=None, base_over=None):
        self.s = schema
        self.doc = doc
        self.tape = tape
        self.stream = stream
        self.faults = faults or {}  # path -> kind
        self.k = dict(null_pct=12, max_list=3, budget=160, decoy_pct=60, type_as_object_pct=0, long_list_pct=0, mid_list_pct=0,
                      skip_null_excludes=False, reuse_results=None)
        if knobs:
            self.k.update(knobs)
        self.frags = doc.fragments()
        self.plan = Plan()
        self.base_over = base_over  # budget decisions of the fault-free plan (position -> bool)
        self.tok = 0

    def tp(self, path, purpose=""):
        """Per-position choice stream: what is drawn for one response position never depends on
        what happened at other positions (faults elsewhere leave the rest of the data unchanged)."""
        return self.tape.sub("%s:%s%s" % (self.stream, "/".join(map(str, path)), purpose))

    # ---- entry ---------------------------------------------------------------------------------
    def run(self, op_name, raw_vars, root_value=None, root_is_none=False):
        p = self.plan
        ops = self.doc.operations()
        op = None
        if op_name:
            for o in ops:
                if o.name == op_name:
                    op = o
            if op is None:
                p.op_error = "unknown"
        elif len(ops) == 1:
            op = ops[0]
        else:
            p.op_error = "ambiguous"
        if op is None:
            p.refused = True
            return p
        p.op = op
        p.no_variables = all(not o.vardefs for o in ops)
        variables, bad, amb = coerce_variable_values(self.s, op.vardefs, raw_vars)
        p.var_bad, p.var_ambiguous = bad, amb
        if bad or amb:
            p.refused = True
            return p
        p.variables = variables
        self.vars = variables
        root_type = {"query": self.s.query, "mutation": self.s.mutation, "subscription": self.s.subscription}[op.op]
        if root_value is None and not root_is_none:
            root_value = self.new_object(root_type, None, None, ("<root>",))
        p.root_value = root_value
        groups = self.collect(root_type, op.sels, set(), {})
        try:
            p.data = self.exec_selset(groups, root_type, root_value, (), serial=(op.op == "mutation"))
        except Propagate as pr:
            for e in pr.errs:
                e.nulls = ROOT
            p.data = None
        return p

    # ---- CollectFields -------------------------------------------------------------------------
    def dir_value(self, d):
        v = dict(d.args)["if"]
        if v[0] == "var":
            return self.vars.get(v[1])
        return v[1]

    def included(self, sel):
        """CollectFields, literally: skipped when @skip's `if` is true; excluded when @include's `if`
        is not true.  (`if` can only be null through a nullable variable with a default that was given
        an explicit null.)  Knob skip_null_excludes models the engine's recorded deviation: a null `if`
        drops the selection whichever the directive."""
        for d in sel.directives:
            if d.name not in ("skip", "include"):
                continue
            v = self.dir_value(d)
            if v is None:
                self.plan.probe("if_null_on_" + d.name)
                if self.k.get("skip_null_excludes"):
                    return False
            if d.name == "skip" and v is True:
                return False
            if d.name == "include" and v is not True:
                return False
        return True

    def applies(self, cond, obj_type):
        if cond is None or cond == obj_type:
            return True
        k = self.s.kind_of(cond)
        if k == "INTERFACE":
            return cond in self.s.t(obj_type).interfaces
        if k == "UNION":
            return obj_type in self.s.t(cond).members
        return False

    def collect(self, obj_type, sels, visited, out):
        for sel in sels:
            if not self.included(sel):
                self.plan.probe("skipped_selection")
                continue
            if sel.kind == "field":
                out.setdefault(sel.key, []).append(sel)
            elif sel.kind == "spread":
                if sel.name in visited:
                    self.plan.probe("fragment_visited_twice")
                    continue
                visited.add(sel.name)
                fr = self.frags.get(sel.name)
                if fr is None or not self.applies(fr.cond, obj_type):
                    continue
                self.collect(obj_type, fr.sels, visited, out)
            else:
                if not self.applies(sel.cond, obj_type):
                    continue
                self.collect(obj_type, sel.sels, visited, out)
        return out

    # ---- ExecuteSelectionSet ---------------------------------------------------------------------
    def exec_selset(self, groups, obj_type, obj, path, serial=False):
        result = {}
        pending = []
        for key, fields in groups.items():
            fname = fields[0].name
            fpath = path + (key,)
            self.plan.field_nodes[fpath] = fields
            if len(fields) > 1:
                self.plan.probe("merged_field_nodes")
            if fname == "__typename":
                result[key] = obj_type
                continue
            if fname in ("__schema", "__type"):
                result[key] = OPAQUE
                continue
            fd = self.s.fields_of(obj_type)[fname]
            try:
                result[key] = self.exec_field(obj_type, obj, fd, fields, fpath)
            except Propagate as pr:
                pending.extend(pr.errs)
                if serial:
                    break
        if pending:
            raise Propagate(pending)
        return result

    def exec_field(self, obj_type, obj, fd, fields, path):
        p = self.plan
        p.instances += 1
        try:
            if fd.impl == "resolver":
                try:
                    args = coerce_argument_values(self.s, fd.args, fields[0].args, self.vars)
                except ArgError as ae:
                    p.calls.append(Call(path, (obj_type, fd.name), obj, None, ae.arg))
                    raise FieldFail(path, "argument:" + ae.arg)
                p.calls.append(Call(path, (obj_type, fd.name), obj, args))
                raw = self.plan_resolver(obj_type, fd, path)
            else:
                try:
                    coerce_argument_values(self.s, fd.args, fields[0].args, self.vars)
                except ArgError as ae:
                    raise FieldFail(path, "argument:" + ae.arg)
                raw = self.default_value(obj_type, obj, fd, path)
                p.default_sites[path] = (obj, fd)
            p.positions.append((path, fd.type, "field", fd.impl == "resolver"))
            return self.complete(fd.type, raw, path, fields, obj_type, fd)
        except FieldFail as ff:
            e = ExpErr(ff.path, ff.kind, getattr(ff, "token", None), getattr(ff, "tf", None))
            p.errors.append(e)
            return self.absorb_or_raise(fd.type, path, [e])
        except Propagate as pr:
            return self.absorb_or_raise(fd.type, path, pr.errs)

    def absorb_or_raise(self, ty, path, errs):
        if is_nn(ty):
            raise Propagate(errs)
        for e in errs:
            if e.nulls is None:
                e.nulls = path
        return None

    # ---- resolver results ------------------------------------------------------------------------
    def token(self, path=()):
        return "tok<%s>!" % "/".join(map(str, path))

    def fire(self, kind):
        f = self.plan.faults_fired
        f[kind] = f.get(kind, 0) + 1

    def plan_resolver(self, obj_type, fd, path):
        fault = self.faults.get(path)
        p = self.plan
        if fault in ("raise", "raise_tf", "raise_shared", "raise_odd", "raise_base"):
            tok = self.token(path)
            tf = None
            if fault == "raise_tf":
                # (reported message, extensions, developer message or None when there is no separate user message)
                tf = ("user message " + tok, {"code": tok, "n": 7}, ("developer message " + tok) if self.tp(path, "#tf").chance(40) else None)
            p.results[path] = ("raise", fault, tok, tf)
            self.fire(fault)
            ff = FieldFail(path, fault)
            ff.token = tok
            ff.tf = tf
            raise ff
        reuse = self.k.get("reuse_results")
        if reuse is not None and path in reuse and reuse[path][0] == "value":
            # an alternative plan over the SAME resolver data (objects included) as another plan
            raw = reuse[path][1]
        else:
            raw = self.gen_raw(fd.type, path, obj_type, fd, top=True)
        p.results[path] = ("value", raw)
        return raw

    def default_value(self, obj_type, obj, fd, path):
        """Default resolver: same-named attribute or key of the parent (populated lazily here)."""
        attr = fd.impl == "attr"
        marker = "_has_" + fd.name
        if peek(obj, marker) is None:
            raw = self.gen_raw(fd.type, path, obj_type, fd, top=True)
            if isinstance(obj, DictRec) and attr:
                obj.__dict__[fd.name] = raw
                obj[marker] = True
            elif isinstance(obj, dict):
                obj[fd.name] = raw
                obj[marker] = True
            elif isinstance(obj, Rec):
                if attr:
                    obj.__dict__[fd.name] = raw
                else:
                    obj._keys[fd.name] = raw
                obj._keys[marker] = True
            else:  # foreign root value: cannot populate
                return None
            self.plan.probe("default_attr" if (attr and isinstance(obj, Rec)) else "default_key")
            return raw
        if isinstance(obj, DictRec) and fd.name in obj.__dict__:
            return obj.__dict__[fd.name]
        if isinstance(obj, dict):
            return obj.get(fd.name)
        if fd.name in obj.__dict__:
            return obj.__dict__[fd.name]
        return obj._keys.get(fd.name)

    def gen_raw(self, ty, path, obj_type, fd, top=False):
        """A raw (pre-completion) value for a position of type ty, honouring the fault plan."""
        t, k = self.tp(path), self.k
        fault = self.faults.get(path)
        if fault and not (top and fault in ("raise", "raise_tf", "raise_shared", "raise_odd")):
            self.fire(("item_" if not top else "") + fault)
            if fault == "null":
                return None
            if fault == "return_exc":
                return FaultError(self.token(path))
            if fault == "bad_value":
                return self.bad_value(ty, path)
        if self.base_over is not None:
            over = self.base_over.get(path, True)
        else:
            over = self.plan.instances > k["budget"]
        self.plan.over[path] = over
        if not is_nn(ty):
            if t.chance(k["null_pct"]) or (over and self.s.is_composite(named(ty))):
                return None
        inner = ty[1] if is_nn(ty) else ty
        if inner[0] == "L":
            n = t.rint(0, k["max_list"])
            if over:
                n = min(n, 1)
            elif k.get("huge_list_crc") and nullable(inner[1])[0] == "N" and self.s.is_leaf(named(inner[1])) and len(path) <= 3 \
                    and not any(isinstance(x, int) for x in path) and zlib.crc32(repr(path).encode()) % 3 == 0:
                # dedicated runs: a position-determined share of the shallow leaf lists has more than 4096 items
                n = 4097 + zlib.crc32(repr(path).encode()) % 900
                self.plan.probe("list_longer_than_4096")
            elif k.get("long_list_pct") and nullable(inner[1])[0] == "N" and self.s.is_leaf(named(inner[1])) and t.chance(k["long_list_pct"]):
                # longer than any internal chunk / batch size, or exactly at a power-of-two boundary
                n = t.choose([256, 255, 512, 1024, 1025, 256, 255, 512, 1024, 1025] + ([4097, 5000] if (k.get("huge_list") and not any(isinstance(x, int) for x in path)) else [256, 1025])) \
                    if t.chance(25) else 257 + t.draw(80)
                self.plan.probe("list_longer_than_256")
            elif k.get("mid_list_pct") and inner[1][0] != "L" and len(path) <= 2 and t.chance(k["mid_list_pct"]):
                n = 10 + t.draw(14)  # two-digit indices, many concurrent items
                self.plan.probe("list_of_10_to_23_items")
            if n >= 2:
                self.plan.probe("list_len>=2")
            if inner[1][0] == "L" or (inner[1][0] == "NN" and inner[1][1][0] == "L"):
                self.plan.probe("list_of_lists")
            return [self.gen_raw(inner[1], path + (i,), obj_type, fd) for i in range(n)]
        name = inner[1]
        kind = self.s.kind_of(name)
        if kind in ("SCALAR", "ENUM"):
            return self.leaf_raw(name, t, path)
        return self.new_composite(name, obj_type, fd, path)

    def leaf_raw(self, name, t, path):
        n = zlib.crc32("/".join(map(str, path)).encode()) % 9000
        if name == "Int":
            return n + 100 if not t.chance(10) else t.choose([0, -1, 2147483647, -2147483648])
        if name == "Float":
            if t.chance(20):
                return n + 200  # int for Float: must come out as a float
            return n + 0.5
        if name == "String":
            return "s%d" % n if not t.chance(8) else t.choose(["", "été", "a\"b", "\n"])
        if name == "Boolean":
            return bool(t.draw(2))
        if name == "ID":
            if t.chance(25):
                return n + 300  # int for ID: must come out as a string
            return "id%d" % n
        td = self.s.types[name]
        if td.kind == "ENUM":
            return t.choose(td.names())
        if td.custom == "xstr":
            if t.chance(7):
                self.plan.probe("scalar_serialises_to_null")
                return "nil"  # XStr serialises this value to null (legal): null at that position
            return "w%d" % n
        if td.custom == "xnum":
            return n
        raise ValueError(name)

    def bad_value(self, ty, path):
        """A value that cannot be completed for a position of type ty (nullability aside)."""
        t = self.tp(path, "#bad")
        inner = ty[1] if is_nn(ty) else ty
        if inner[0] == "L":
            return t.choose([{"x": 1}, 5, "str", (1, 2)])
        name = inner[1]
        kind = self.s.kind_of(name)
        if name == "Int":
            return t.choose(["abc", 2 ** 31, 1.5, {"x": 1}, -(2 ** 31) - 1, float("nan")])
        if name == "Float":
            return t.choose(["abc", {"x": 1}, float("nan"), float("inf"), [1]])
        if name == "Boolean":
            return t.choose(["abc", {"x": 1}, [1]])
        if name == "String":
            return BadStr()
        if name == "ID":
            return t.choose([1.5, {"x": 1}, [1], BadStr()])
        if kind == "ENUM":
            return t.choose(["NOPE", 12, ["A"], "", {"A": 1}])
        if kind == "SCALAR":
            return 12 if self.s.types[name].custom == "xstr" else "abc"
        if kind in ("INTERFACE", "UNION"):
            # unknown / foreign / non-object runtime type
            others = [o.name for o in self.s.objects() if o.name not in self.s.possible(name)]
            non_obj = [n for n, td in self.s.types.items() if td.kind != "OBJECT"]
            cands = ["Nope"] + others[:2] + non_obj[:2] + ["Int"]
            tn = t.choose(cands)
            return {"_id": self.new_id(path), "_typename": tn, "_tn_type": tn, "_tn_field": tn, "_bad_type": True}
        # an OBJECT position: there is no ill-typed value for an object (anything non-null is an
        # object whose fields are read from it); use an exception instance instead
        return FaultError(self.token(path))

    def new_id(self, path):
        return "o<%s>" % "/".join(map(str, path))

    def abstract_level(self, abstract, fd):
        td = self.s.types[abstract]
        if fd is not None and fd.impl == "resolver" and fd.field_type_resolver:
            return "field"
        if td.type_resolver:
            return "type"
        return "default"

    def new_composite(self, name, obj_type, fd, path):
        kind = self.s.kind_of(name)
        if kind == "OBJECT":
            return self.new_object(name, None, fd, path)
        poss = self.s.possible(name)
        if not poss:
            return None
        truth = self.tp(path, "#obj").choose(poss)
        return self.new_object(truth, name, fd, path)

    def new_object(self, truth, abstract, fd, path):
        t = self.tp(path, "#obj")
        tdef = self.s.t(truth)
        needs_attr = any(f.impl == "attr" for f in tdef.fields.values())
        level = self.abstract_level(abstract, fd) if abstract else None
        style = "dict"
        if needs_attr:
            style = "rec"
        elif t.chance(30):
            style = "rec"
        if abstract and level == "default" and t.chance(30):
            style = "class"
        if style == "rec" and self.tp(path, "#style").chance(25):
            style = "dictsub"
            self.plan.probe("dict_subclass_parent_with_attributes")
        if style == "dict":
            o = {}
        elif style == "dictsub":
            o = DictRec()
        elif style == "class":
            o = named_rec_class(truth)()
        elif t.chance(15):
            o = FalsyRec()
            self.plan.probe("falsy_parent_object")
        else:
            o = Rec()
        oid = self.new_id(path)
        attr = style != "dict" and t.chance(50)
        poke(o, "_id", oid, False)
        poke(o, "_truth", truth, False)
        if abstract:
            poss = self.s.possible(abstract)
            decoys = [x for x in poss if x != truth] or ["Nope"]
            self.plan.abstract_levels[level] = self.plan.abstract_levels.get(level, 0) + 1

            def decoy():
                return t.choose(decoys) if t.chance(self.k["decoy_pct"]) else truth

            if level == "field":
                poke(o, "_tn_field", truth)
                poke(o, "_tn_type", decoy())
                if style != "class":
                    poke(o, "_typename", decoy(), attr)
                self.plan.probe("type_levels_disagree")
            elif level == "type":
                poke(o, "_tn_type", truth)
                if style != "class":
                    poke(o, "_typename", decoy(), attr)
            else:
                if style != "class":
                    poke(o, "_typename", truth, attr)
                    self.plan.probe("typename_attr" if (attr and style != "dict") else "typename_key")
                else:
                    self.plan.probe("typename_class")
        elif style != "class" and t.chance(20):
            poke(o, "_typename", truth, attr)
        return o

    # ---- CompleteValue ---------------------------------------------------------------------------
    def complete(self, ty, raw, path, fields, obj_type, fd):
        if is_nn(ty):
            r = self.complete(ty[1], raw, path, fields, obj_type, fd)
            if r is None:
                raise FieldFail(path, "null_at_non_null")
            return r
        if raw is None:
            return None
        if isinstance(raw, Exception):
            ff = FieldFail(path, "exception_value")
            ff.token = getattr(raw, "token", None)
            raise ff
        if ty[0] == "L":
            if not isinstance(raw, list):
                raise FieldFail(path, "non_list")
            out = []
            pending = []
            item_t = ty[1]
            for i, item in enumerate(raw):
                ip = path + (i,)
                self.plan.positions.append((ip, item_t, "item", False))
                self.plan.item_sites[ip] = (raw, i)
                try:
                    out.append(self.complete_item(item_t, item, ip, fields, obj_type, fd))
                except Propagate as pr:
                    pending.extend(pr.errs)
            if pending:
                raise Propagate(pending)
            return out
        name = ty[1]
        kind = self.s.kind_of(name)
        if kind in ("SCALAR", "ENUM"):
            return self.leaf_out(name, raw, path)
        if kind == "OBJECT":
            runtime = name
        else:
            runtime = self.resolve_type(name, raw, fd, path)
        groups = {}
        visited = set()
        for f in fields:
            if f.sels:
                self.collect(runtime, f.sels, visited, groups)
        return self.exec_selset(groups, runtime, raw, path)

    def complete_item(self, ty, raw, path, fields, obj_type, fd):
        """complete_value_catching_error applied to one list item."""
        try:
            return self.complete(ty, raw, path, fields, obj_type, fd)
        except FieldFail as ff:
            e = ExpErr(ff.path, ff.kind, getattr(ff, "token", None))
            self.plan.errors.append(e)
            return self.absorb_or_raise(ty, path, [e])
        except Propagate as pr:
            return self.absorb_or_raise(ty, path, pr.errs)

    def resolve_type(self, abstract, raw, fd, path):
        level = self.abstract_level(abstract, fd)
        key = {"field": "_tn_field", "type": "_tn_type", "default": "_typename"}[level]
        if level != "default" and not isinstance(path[-1], int) and fd is not None and fd.impl == "resolver":
            # (list items are left out: the type resolver is given the field's info, it cannot tell the items apart;
            # default-resolved fields too: two aliases read one shared slot, a fault keyed by path would hit only one)
            self.plan.type_resolver_sites.append(path)
            if self.faults.get(path) == "type_raise_tf":
                # the (harness) type resolver raises a library error: a field error at this position
                tok = self.token(path)
                tf = ("user message " + tok, {"code": tok, "n": 7}, None)
                self.plan.type_faults[path] = tf
                self.fire("type_raise_tf")
                ff = FieldFail(path, "raise_tf")
                ff.token, ff.tf = tok, tf
                raise ff
        tn = peek(raw, key)
        if level == "default":
            self.plan.default_type_resolutions += 1
        if tn is None and level == "default":
            tn = type(raw).__name__
        if tn not in self.s.types or self.s.kind_of(tn) != "OBJECT" or tn not in self.s.possible(abstract):
            raise FieldFail(path, "bad_runtime_type")
        return tn

    def leaf_out(self, name, raw, path):
        """Result coercion of well-typed values; anything else is a field failure."""
        ok = False
        out = raw
        if name == "Int":
            ok = isinstance(raw, int) and not isinstance(raw, bool) and -(2 ** 31) <= raw <= 2 ** 31 - 1
        elif name == "Float":
            if isinstance(raw, bool):
                ok = False
            elif isinstance(raw, int):
                ok, out = True, float(raw)
            elif isinstance(raw, float):
                ok = math.isfinite(raw)
        elif name == "String":
            ok = isinstance(raw, str)
        elif name == "Boolean":
            ok = isinstance(raw, bool)
        elif name == "ID":
            if isinstance(raw, str):
                ok = True
            elif isinstance(raw, int) and not isinstance(raw, bool):
                ok, out = True, str(raw)
        else:
            td = self.s.types[name]
            if td.kind == "ENUM":
                ok = isinstance(raw, str) and raw in td.names()
            elif td.custom == "xstr":
                ok = isinstance(raw, str)
                out = (None if raw == "nil" else "x:" + raw) if ok else None
            elif td.custom == "xnum":
                ok = isinstance(raw, int) and not isinstance(raw, bool)
                out = (raw + 1000) if ok else None
        if not ok:
            raise FieldFail(path, "bad_leaf")
        return out


class _Opaque:
    def __repr__(self):
        return "<OPAQUE>"


OPAQUE = _Opaque()


class EmptyMessageError(Exception):
    """An exception whose message is empty."""

    def __str__(self):
        return ""


class UnprintableError(Exception):
    """An exception whose __str__ itself raises."""

    def __str__(self):
        raise RuntimeError("this exception cannot be rendered")

    def __repr__(self):
        return "UnprintableError()"


class PayloadError(Exception):
    """An application error giving attribute access to its payload: unknown attributes raise KeyError, not AttributeError
    (`def __getattr__(self, k): return self.payload[k]`)."""

    def __init__(self, msg):
        super().__init__(msg)
        self.payload = {"code": 7}

    def __getattr__(self, k):
        return self.__dict__["payload"][k]


class FrozenError(Exception):
    """An application error that implements the documented `coerce_value` protocol but cannot be annotated in place
    (what a frozen dataclass exception does)."""

    def __init__(self, msg):
        super().__init__(msg)
        object.__setattr__(self, "_frozen", True)

    def __setattr__(self, name, value):
        if getattr(self, "_frozen", False) and not name.startswith("__"):
            raise AttributeError("cannot assign to field %r" % name)
        object.__setattr__(self, name, value)

    def coerce_value(self, *_a, path=None, locations=None, **_k):
        return {"message": str(self), "path": path, "locations": [loc.collect_value() for loc in (locations or [])]}


class PathCarryingError(Exception):
    """A non-library exception that happens to have `path` / `locations` attributes of its own
    (like ImportError.path or jsonschema's ValidationError.path)."""

    def __init__(self, msg):
        super().__init__(msg)
        self.path = "/some/module/file.py"
        self.locations = ["somewhere"]


class FaultError(Exception):
    """Plain exception used by injected faults; carries a unique token."""

    def __init__(self, token):
        super().__init__("injected fault " + token)
        self.token = token


def _strip(path):
    """The field's own path: drop the trailing list indices of an item position."""
    path = tuple(path)
    while path and isinstance(path[-1], int):
        path = path[:-1]
    return path


def same_list_fault_pair(plan, t):
    """Two fault sites under two different items of one list (failures racing inside one gather)."""
    by_list = {}
    for path, ty, what, is_res in plan.positions:
        if what == "item":
            by_list.setdefault(path[:-1], set()).add(path[-1])
    lists = [(lp, sorted(ix)) for lp, ix in by_list.items() if len(ix) >= 2]
    if not lists:
        return None
    lp, ix = lists[t.draw(len(lists))]
    i = ix[t.draw(len(ix))]
    j = ix[t.draw(len(ix))]
    if i == j:
        return None
    sites = enumerate_fault_sites(plan)
    out = {}
    for item in (i, j):
        under = [s for s in sites if len(s[0]) >= len(lp) + 1 and tuple(s[0][: len(lp) + 1]) == tuple(lp) + (item,)]
        if not under:
            return None
        p, kind = under[t.draw(len(under))]
        out[p] = kind
    return out


def enumerate_fault_sites(plan):
    """All (path, kind) single-fault candidates of a fault-free plan."""
    sites = []
    for path, ty, what, is_resolver in plan.positions:
        if what == "field":
            kinds = ["null", "return_exc", "bad_value"]
            if is_resolver:
                kinds = ["raise", "raise_tf", "raise_odd"] + kinds
        else:
            kinds = list(ITEM_FAULTS)
        for k in kinds:
            sites.append((path, k))
    for path in getattr(plan, "type_resolver_sites", ()):
        sites.append((path, "type_raise_tf"))
    return sites
