"""Reference input coercion: a transcription of the June-2018 spec (3.x "Input Coercion",
6.1.2 CoerceVariableValues, 6.4.1 CoerceArgumentValues).  Shares no code with tartiflette."""
import math

from simv.model.schema import ABSENT, named

INT_MIN, INT_MAX = -(2 ** 31), 2 ** 31 - 1


class CoerceFail(Exception):
    """The value is not acceptable for the type."""


class Ambiguous(Exception):
    """The spec (read in Python terms) leaves the verdict open; the oracle accepts either."""


MISSING = ("missing",)  # a variable without runtime value in a nested position


def coerce_json(schema, ty, v):
    """Coerce a JSON (variable) value."""
    if ty[0] == "NN":
        if v is None:
            raise CoerceFail("null for non-null")
        return coerce_json(schema, ty[1], v)
    if v is None:
        return None
    if ty[0] == "L":
        if isinstance(v, list):
            return [coerce_json(schema, ty[1], x) for x in v]
        return [coerce_json(schema, ty[1], v)]
    return _coerce_json_named(schema, ty[1], v)


def _coerce_json_named(schema, name, v):
    if name == "Int":
        if isinstance(v, bool):
            raise CoerceFail("bool for Int")
        if isinstance(v, int):
            if INT_MIN <= v <= INT_MAX:
                return v
            raise CoerceFail("Int out of range")
        if isinstance(v, float):
            if math.isfinite(v) and v == math.floor(v) and INT_MIN <= v <= INT_MAX:
                raise Ambiguous(int(v))
            raise CoerceFail("non-integral float for Int")
        raise CoerceFail("not an int")
    if name == "Float":
        if isinstance(v, bool):
            raise CoerceFail("bool for Float")
        if isinstance(v, int):
            try:
                f = float(v)
            except OverflowError:
                raise CoerceFail("int too large for Float")
            return f
        if isinstance(v, float):
            if math.isfinite(v):
                return v
            raise CoerceFail("non-finite Float")
        raise CoerceFail("not a number")
    if name == "String":
        if isinstance(v, str):
            return v
        raise CoerceFail("not a string")
    if name == "Boolean":
        if isinstance(v, bool):
            return v
        raise CoerceFail("not a bool")
    if name == "ID":
        if isinstance(v, str):
            return v
        if isinstance(v, bool):
            raise CoerceFail("bool for ID")
        if isinstance(v, int):
            return str(v)
        if isinstance(v, float) and math.isfinite(v) and v == math.floor(v):
            raise Ambiguous(str(int(v)))
        raise CoerceFail("bad ID")
    td = schema.types[name]
    if td.kind == "ENUM":
        if isinstance(v, str) and v in td.names():
            return v
        raise CoerceFail("bad enum value")
    if td.kind == "SCALAR":
        if td.custom == "xstr":
            if isinstance(v, str) and v.startswith("x:"):
                return v[2:]
            raise CoerceFail("bad XStr")
        if td.custom == "xnum":
            if isinstance(v, int) and not isinstance(v, bool):
                return v - 1000
            raise CoerceFail("bad XNum")
    if td.kind == "INPUT_OBJECT":
        if not isinstance(v, dict):
            raise CoerceFail("not an object")
        for key in v:
            if key not in td.fields:
                raise CoerceFail("unknown input field %s" % key)
        out = {}
        for fn, fd in td.fields.items():
            if fn in v:
                out[fn] = coerce_json(schema, fd.type, v[fn])
            elif fd.default is not ABSENT:
                out[fn] = coerce_literal(schema, fd.type, fd.default, {})
            elif fd.type[0] == "NN":
                raise CoerceFail("missing required input field %s" % fn)
        return out
    raise CoerceFail("not an input type: %s" % name)


def coerce_literal(schema, ty, lit, variables, top=True):
    """Coerce a literal (possibly containing variables) for type ty.

    Returns the coerced value or MISSING (only for a bare variable without runtime value).
    Raises CoerceFail for an invalid value."""
    if lit[0] == "var":
        if lit[1] not in variables:
            return MISSING
        v = variables[lit[1]]
        if v is None and ty[0] == "NN":
            raise CoerceFail("null variable for non-null position")
        return v
    if ty[0] == "NN":
        if lit[0] == "null":
            raise CoerceFail("null literal for non-null")
        return coerce_literal(schema, ty[1], lit, variables, top)
    if lit[0] == "null":
        return None
    if ty[0] == "L":
        item = ty[1]
        if lit[0] == "list":
            out = []
            for x in lit[1]:
                v = coerce_literal(schema, item, x, variables, False)
                if v is MISSING:
                    if item[0] == "NN":
                        raise CoerceFail("missing variable in non-null list item")
                    v = None
                out.append(v)
            return out
        v = coerce_literal(schema, item, lit, variables, False)
        if v is MISSING:  # cannot happen: bare var handled above
            raise CoerceFail("missing")
        return [v]
    return _coerce_literal_named(schema, ty[1], lit, variables)


def _coerce_literal_named(schema, name, lit, variables):
    k = lit[0]
    if name == "Int":
        if k == "int" and INT_MIN <= int(lit[1]) <= INT_MAX:
            return int(lit[1])
        raise CoerceFail("bad Int literal")
    if name == "Float":
        if k in ("int", "float"):
            try:
                f = float(lit[1])
            except (OverflowError, ValueError):
                raise CoerceFail("bad Float literal")
            if not math.isfinite(f):
                raise CoerceFail("non-finite Float literal")
            return f
        raise CoerceFail("bad Float literal")
    if name == "String":
        if k == "str":
            return lit[1]
        raise CoerceFail("bad String literal")
    if name == "Boolean":
        if k == "bool":
            return lit[1]
        raise CoerceFail("bad Boolean literal")
    if name == "ID":
        if k == "str":
            return lit[1]
        if k == "int":
            return str(int(lit[1]))
        raise CoerceFail("bad ID literal")
    td = schema.types[name]
    if td.kind == "ENUM":
        if k == "enum" and lit[1] in td.names():
            return lit[1]
        raise CoerceFail("bad enum literal")
    if td.kind == "SCALAR":
        if td.custom == "xstr":
            if k == "str" and lit[1].startswith("x:"):
                return lit[1][2:]
            raise CoerceFail("bad XStr literal")
        if td.custom == "xnum":
            if k == "int":
                return int(lit[1]) - 1000
            raise CoerceFail("bad XNum literal")
    if td.kind == "INPUT_OBJECT":
        if k != "obj":
            raise CoerceFail("not an object literal")
        given = {}
        for fn, fv in lit[1]:
            if fn not in td.fields or fn in given:
                raise CoerceFail("unknown or duplicated input field")
            given[fn] = fv
        out = {}
        for fn, fd in td.fields.items():
            v = MISSING
            if fn in given:
                v = coerce_literal(schema, fd.type, given[fn], variables, False)
            if v is MISSING:
                if fd.default is not ABSENT:
                    out[fn] = coerce_literal(schema, fd.type, fd.default, {})
                elif fd.type[0] == "NN":
                    raise CoerceFail("missing required input field %s" % fn)
                continue
            out[fn] = v
        return out
    raise CoerceFail("not an input type")


class VariableErrors(Exception):
    def __init__(self, names):
        super().__init__(", ".join(names))
        self.names = names


def coerce_variable_values(schema, vardefs, raw):
    """vardefs: [(name, type, default-or-ABSENT)].  Returns (coerced dict, bad names, ambiguous names)."""
    out = {}
    bad = []
    ambiguous = []
    raw = raw or {}
    for name, ty, default in vardefs:
        has = name in raw
        if not has and default is not ABSENT:
            try:
                out[name] = coerce_literal(schema, ty, default, {})
            except CoerceFail:
                bad.append(name)
            continue
        if ty[0] == "NN" and (not has or raw[name] is None):
            bad.append(name)
            continue
        if has:
            if raw[name] is None:
                out[name] = None
                continue
            try:
                out[name] = coerce_json(schema, ty, raw[name])
            except CoerceFail:
                bad.append(name)
            except Ambiguous:
                ambiguous.append(name)
    return out, bad, ambiguous


class ArgError(Exception):
    def __init__(self, arg):
        super().__init__(arg)
        self.arg = arg


def coerce_argument_values(schema, argdefs, given, variables):
    """argdefs: {name: ArgDef}; given: [(name, Value)].  Returns dict or raises ArgError(argname)."""
    gmap = dict(given)
    out = {}
    for name, ad in argdefs.items():
        lit = gmap.get(name, ABSENT)
        has = lit is not ABSENT
        is_var = has and lit[0] == "var"
        if is_var:
            has = lit[1] in variables
        if not has and ad.default is not ABSENT:
            try:
                out[name] = coerce_literal(schema, ad.type, ad.default, {})
            except CoerceFail:
                raise ArgError(name)
            continue
        if ad.type[0] == "NN" and (not has or (variables[lit[1]] is None if is_var else lit[0] == "null")):
            raise ArgError(name)
        if has:
            if is_var:
                out[name] = variables[lit[1]]
            else:
                try:
                    v = coerce_literal(schema, ad.type, lit, variables)
                except CoerceFail:
                    raise ArgError(name)
                out[name] = v
    return out
