"""Executable-document model and printer that records the text span of every node."""
import random

from simv.model.schema import ABSENT, tstr, value_str


class Field:
    kind = "field"

    def __init__(self, name, alias=None, args=None, directives=None, sels=None):
        self.name = name
        self.alias = alias
        self.args = args or []  # [(name, Value)]
        self.directives = directives or []  # [DirUse]
        self.sels = sels  # None | [selection]
        self.span = None
        self.arg_spans = {}
        self.uid = None

    @property
    def key(self):
        return self.alias or self.name


class Inline:
    kind = "inline"

    def __init__(self, cond, directives=None, sels=None):
        self.cond = cond  # None | type name
        self.directives = directives or []
        self.sels = sels or []
        self.span = None


class Spread:
    kind = "spread"

    def __init__(self, name, directives=None):
        self.name = name
        self.directives = directives or []
        self.span = None


class Fragment:
    kind = "fragment"

    def __init__(self, name, cond, sels=None, directives=None):
        self.name = name
        self.cond = cond
        self.sels = sels or []
        self.directives = directives or []
        self.span = None


class Operation:
    kind = "operation"

    def __init__(self, op, name=None, vardefs=None, sels=None, directives=None):
        self.op = op  # "query" | "mutation" | "subscription"
        self.name = name
        self.vardefs = vardefs or []  # [(name, type, default|ABSENT)]
        self.sels = sels or []
        self.directives = directives or []
        self.span = None
        self.var_spans = {}
        self.shorthand = False


class Document:
    def __init__(self, defs=None):
        self.defs = defs or []

    def operations(self):
        return [d for d in self.defs if d.kind == "operation"]

    def fragments(self):
        return {d.name: d for d in self.defs if d.kind == "fragment"}


class Writer:
    def __init__(self, layout=0):
        self.parts = []
        self.line = 1
        self.col = 1
        self.layout = layout
        self.rng = random.Random("layout:%d" % layout) if layout >= 2 else None
        self.depth = 0

    def w(self, text):
        self.parts.append(text)
        nl = text.count("\n")
        if nl:
            self.line += nl
            self.col = len(text) - text.rfind("\n")
        else:
            self.col += len(text.encode("utf-8"))

    def pos(self):
        return (self.line, self.col)

    def sp(self, structural=False):
        """Whitespace between tokens."""
        if self.layout == 0:
            self.w(" ")
        elif self.layout == 1:
            if structural:
                self.w("\n" + "  " * self.depth)
            else:
                self.w(" ")
        else:
            r = self.rng.random()
            if r < 0.6:
                self.w(" ")
            elif r < 0.8:
                self.w("\n" + " " * self.rng.randrange(0, 6))
            elif r < 0.9:
                self.w(", ")
            else:
                self.w("  # c\n")

    def text(self):
        return "".join(self.parts)


def _dirs(w, dirs):
    for d in dirs:
        w.sp()
        start = w.pos()
        w.w("@" + d.name)
        if d.args:
            w.w("(")
            for i, (n, v) in enumerate(d.args):
                if i:
                    w.w(", ")
                w.w("%s: %s" % (n, value_str(v)))
            w.w(")")
        d.span = start + w.pos()


def _sels(w, sels):
    w.w("{")
    w.depth += 1
    for s in sels:
        w.sp(True)
        start = w.pos()
        if s.kind == "field":
            if s.alias:
                w.w(s.alias + ":")
                if w.layout >= 2:
                    w.sp()
                else:
                    w.w(" ")
            w.w(s.name)
            if s.args:
                w.w("(")
                for i, (n, v) in enumerate(s.args):
                    if i:
                        w.w(", " if w.layout < 2 else " ")
                    a0 = w.pos()
                    w.w("%s: %s" % (n, value_str(v)))
                    s.arg_spans[n] = a0 + w.pos()
                w.w(")")
            _dirs(w, s.directives)
            if s.sels is not None:
                w.sp()
                _sels(w, s.sels)
        elif s.kind == "inline":
            w.w("...")
            if s.cond:
                w.w(" on " + s.cond)
            _dirs(w, s.directives)
            w.sp()
            _sels(w, s.sels)
        else:
            w.w("..." + s.name)
            _dirs(w, s.directives)
        s.span = start + w.pos()
    w.depth -= 1
    w.sp(True)
    w.w("}")


def print_document(doc, layout=0):
    w = Writer(layout)
    first = True
    for d in doc.defs:
        if not first:
            w.w("\n" if layout else " ")
        first = False
        start = w.pos()
        if d.kind == "operation":
            if not (d.shorthand and d.op == "query" and not d.name and not d.vardefs and not d.directives):
                w.w(d.op)
                if d.name:
                    w.w(" " + d.name)
                if d.vardefs:
                    w.w("(")
                    for i, (n, ty, default) in enumerate(d.vardefs):
                        if i:
                            w.w(", ")
                        v0 = w.pos()
                        w.w("$%s: %s" % (n, tstr(ty)))
                        if default is not ABSENT:
                            w.w(" = " + value_str(default))
                        d.var_spans[n] = v0 + w.pos()
                    w.w(")")
                _dirs(w, d.directives)
                w.sp()
            _sels(w, d.sels)
        else:
            w.w("fragment %s on %s" % (d.name, d.cond))
            _dirs(w, d.directives)
            w.sp()
            _sels(w, d.sels)
        d.span = start + w.pos()
    return w.text()


def walk_fields(sels, frags, seen=None):
    """Yield every Field reachable in a selection list (through fragments)."""
    seen = set() if seen is None else seen
    for s in sels:
        if s.kind == "field":
            yield s
            if s.sels:
                yield from walk_fields(s.sels, frags, seen)
        elif s.kind == "inline":
            yield from walk_fields(s.sels, frags, seen)
        elif s.name in frags and s.name not in seen:
            seen.add(s.name)
            yield from walk_fields(frags[s.name].sels, frags, seen)


# ---- (de)serialisation: explicit document models inside replay files ------------------------------

def _tt(x):
    """lists -> tuples (JSON round trip of Value / type tuples); obj literals keep their list of pairs."""
    if isinstance(x, list):
        return tuple(_tt(i) for i in x)
    return x


def _val(v):
    """Value tuple from its JSON form."""
    v = list(v)
    k = v[0]
    if k == "list":
        return ("list", [_val(x) for x in v[1]])
    if k == "obj":
        return ("obj", [(n, _val(x)) for n, x in v[1]])
    return tuple(v)


def doc_to_json(doc):
    def dirs(ds):
        return [[d.name, [[n, v] for n, v in d.args]] for d in ds]

    def sel(s):
        if s.kind == "field":
            return {"k": "f", "name": s.name, "alias": s.alias, "args": [[n, v] for n, v in s.args], "dirs": dirs(s.directives),
                    "sels": None if s.sels is None else [sel(x) for x in s.sels]}
        if s.kind == "inline":
            return {"k": "i", "cond": s.cond, "dirs": dirs(s.directives), "sels": [sel(x) for x in s.sels]}
        return {"k": "s", "name": s.name, "dirs": dirs(s.directives)}

    out = []
    for d in doc.defs:
        if d.kind == "operation":
            out.append({"k": "op", "op": d.op, "name": d.name, "shorthand": d.shorthand, "dirs": dirs(d.directives),
                        "vardefs": [[n, ty, None if default == ("absent",) else default] for n, ty, default in d.vardefs],
                        "sels": [sel(x) for x in d.sels]})
        else:
            out.append({"k": "fr", "name": d.name, "cond": d.cond, "sels": [sel(x) for x in d.sels]})
    return out


def doc_from_json(js):
    from simv.model.schema import ABSENT, DirUse

    def dirs(ds):
        return [DirUse(n, [(a, _val(v)) for a, v in args]) for n, args in ds]

    def sel(s):
        if s["k"] == "f":
            return Field(s["name"], s["alias"], [(n, _val(v)) for n, v in s["args"]], dirs(s["dirs"]),
                         None if s["sels"] is None else [sel(x) for x in s["sels"]])
        if s["k"] == "i":
            return Inline(s["cond"], dirs(s["dirs"]), [sel(x) for x in s["sels"]])
        return Spread(s["name"], dirs(s["dirs"]))

    defs = []
    for d in js:
        if d["k"] == "op":
            op = Operation(d["op"], d["name"], [(n, _tt(ty), ABSENT if default is None else _val(default)) for n, ty, default in d["vardefs"]],
                           [sel(x) for x in d["sels"]], dirs(d.get("dirs", [])))
            op.shorthand = d.get("shorthand", False)
            defs.append(op)
        else:
            defs.append(Fragment(d["name"], d["cond"], [sel(x) for x in d["sels"]]))
    doc = Document(defs)
    doc.probes = {}
    return doc


def doc_reductions(js):
    """Yield structurally smaller variants of a JSON document model that stay valid: one selection,
    directive, fragment or operation removed; unused fragments and variables are cleaned up."""
    import copy

    def vars_in(v, acc):
        if v[0] == "var":
            acc.add(v[1])
        elif v[0] == "list":
            for x in v[1]:
                vars_in(x, acc)
        elif v[0] == "obj":
            for _, x in v[1]:
                vars_in(x, acc)

    def scan(sels, used_vars, spreads):
        for s in sels:
            for _, args in s.get("dirs", []):
                for _, v in args:
                    vars_in(v, used_vars)
            if s["k"] == "f":
                for _, v in s["args"]:
                    vars_in(v, used_vars)
                if s["sels"]:
                    scan(s["sels"], used_vars, spreads)
            elif s["k"] == "i":
                scan(s["sels"], used_vars, spreads)
            else:
                spreads.add(s["name"])

    def cleanup(d):
        frs = {x["name"]: x for x in d if x["k"] == "fr"}
        info = {}
        for x in d:
            uv, sp = set(), set()
            scan(x["sels"], uv, sp)
            info[id(x)] = (uv, sp)
        reach = set()
        for x in d:
            if x["k"] != "op":
                continue
            uv, sp = set(info[id(x)][0]), set()
            stack = list(info[id(x)][1])
            while stack:
                n = stack.pop()
                if n in sp or n not in frs:
                    continue
                sp.add(n)
                uv |= info[id(frs[n])][0]
                stack.extend(info[id(frs[n])][1])
            reach |= sp
            x["vardefs"] = [vd for vd in x["vardefs"] if vd[0] in uv]
        return [x for x in d if x["k"] == "op" or x["name"] in reach]

    def walk(d):
        """yield (container list, index) for every selection."""
        def rec(sels):
            for i, s in enumerate(sels):
                yield sels, i
                if s["k"] in ("f", "i") and s.get("sels"):
                    yield from rec(s["sels"])
        for x in d:
            yield from rec(x["sels"])

    ops = [x for x in js if x["k"] == "op"]
    if len(ops) > 1:
        for i, x in enumerate(js):
            if x["k"] == "op":
                d = copy.deepcopy(js)
                del d[i]
                yield cleanup(d)
    n = sum(1 for _ in walk(js))
    for k in range(n):
        d = copy.deepcopy(js)
        sels, i = list(walk(d))[k]
        if len(sels) > 1:
            del sels[i]
            yield cleanup(d)
        d = copy.deepcopy(js)
        sels, i = list(walk(d))[k]
        s = sels[i]
        if s.get("dirs"):
            s["dirs"] = []
            yield cleanup(d)
        if s["k"] == "i" and len(s["sels"]) >= 1:
            d = copy.deepcopy(js)
            sels, i = list(walk(d))[k]
            s = sels[i]
            if s["cond"] is None:
                sels[i:i + 1] = s["sels"]
                yield cleanup(d)
