"""Executable-document model and printer that records the text span of every node."""
import random

from simv.model.schema import ABSENT, tstr, value_str


class Field:
    kind = "field"

    def __init__(self, name, alias=None, args=None, directives=None, sels=None):
        self.name = name
        self.alias = alias
        self.args = args or []  # [(name, Value)]
        self.directives = directives or []  # [DirUse]
        self.sels = sels  # None | [selection]
        self.span = None
        self.arg_spans = {}
        self.uid = None

    @property
    def key(self):
        return self.alias or self.name


class Inline:
    kind = "inline"

    def __init__(self, cond, directives=None, sels=None):
        self.cond = cond  # None | type name
        self.directives = directives or []
        self.sels = sels or []
        self.span = None


class Spread:
    kind = "spread"

    def __init__(self, name, directives=None):
        self.name = name
        self.directives = directives or []
        self.span = None


class Fragment:
    kind = "fragment"

    def __init__(self, name, cond, sels=None, directives=None):
        self.name = name
        self.cond = cond
        self.sels = sels or []
        self.directives = directives or []
        self.span = None


class Operation:
    kind = "operation"

    def __init__(self, op, name=None, vardefs=None, sels=None, directives=None):
        self.op = op  # "query" | "mutation" | "subscription"
        self.name = name
        self.vardefs = vardefs or []  # [(name, type, default|ABSENT)]
        self.sels = sels or []
        self.directives = directives or []
        self.span = None
        self.var_spans = {}
        self.shorthand = False


class Document:
    def __init__(self, defs=None):
        self.defs = defs or []

    def operations(self):
        return [d for d in self.defs if d.kind == "operation"]

    def fragments(self):
        return {d.name: d for d in self.defs if d.kind == "fragment"}


class Writer:
    def __init__(self, layout=0):
        self.parts = []
        self.line = 1
        self.col = 1
        self.layout = layout
        self.rng = random.Random("layout:%d" % layout) if layout >= 2 else None
        self.depth = 0

    def w(self, text):
        self.parts.append(text)
        nl = text.count("\n")
        if nl:
            self.line += nl
            self.col = len(text) - text.rfind("\n")
        else:
            self.col += len(text.encode("utf-8"))

    def pos(self):
        return (self.line, self.col)

    def sp(self, structural=False):
        """Whitespace between tokens."""
        if self.layout == 0:
            self.w(" ")
        elif self.layout == 1:
            if structural:
                self.w("\n" + "  " * self.depth)
            else:
                self.w(" ")
        else:
            r = self.rng.random()
            if r < 0.6:
                self.w(" ")
            elif r < 0.8:
                self.w("\n" + " " * self.rng.randrange(0, 6))
            elif r < 0.9:
                self.w(", ")
            else:
                self.w("  # c\n")

    def text(self):
        return "".join(self.parts)


def _dirs(w, dirs):
    for d in dirs:
        w.sp()
        start = w.pos()
        w.w("@" + d.name)
        if d.args:
            w.w("(")
            for i, (n, v) in enumerate(d.args):
                if i:
                    w.w(", ")
                w.w("%s: %s" % (n, value_str(v)))
            w.w(")")
        d.span = start + w.pos()


def _sels(w, sels):
    w.w("{")
    w.depth += 1
    for s in sels:
        w.sp(True)
        start = w.pos()
        if s.kind == "field":
            if s.alias:
                w.w(s.alias + ":")
                if w.layout >= 2:
                    w.sp()
                else:
                    w.w(" ")
            w.w(s.name)
            if s.args:
                w.w("(")
                for i, (n, v) in enumerate(s.args):
                    if i:
                        w.w(", " if w.layout < 2 else " ")
                    a0 = w.pos()
                    w.w("%s: %s" % (n, value_str(v)))
                    s.arg_spans[n] = a0 + w.pos()
                w.w(")")
            _dirs(w, s.directives)
            if s.sels is not None:
                w.sp()
                _sels(w, s.sels)
        elif s.kind == "inline":
            w.w("...")
            if s.cond:
                w.w(" on " + s.cond)
            _dirs(w, s.directives)
            w.sp()
            _sels(w, s.sels)
        else:
            w.w("..." + s.name)
            _dirs(w, s.directives)
        s.span = start + w.pos()
    w.depth -= 1
    w.sp(True)
    w.w("}")


def print_document(doc, layout=0):
    w = Writer(layout)
    first = True
    for d in doc.defs:
        if not first:
            w.w("\n" if layout else " ")
        first = False
        start = w.pos()
        if d.kind == "operation":
            if not (d.shorthand and d.op == "query" and not d.name and not d.vardefs and not d.directives):
                w.w(d.op)
                if d.name:
                    w.w(" " + d.name)
                if d.vardefs:
                    w.w("(")
                    for i, (n, ty, default) in enumerate(d.vardefs):
                        if i:
                            w.w(", ")
                        v0 = w.pos()
                        w.w("$%s: %s" % (n, tstr(ty)))
                        if default is not ABSENT:
                            w.w(" = " + value_str(default))
                        d.var_spans[n] = v0 + w.pos()
                    w.w(")")
                _dirs(w, d.directives)
                w.sp()
            _sels(w, d.sels)
        else:
            w.w("fragment %s on %s" % (d.name, d.cond))
            _dirs(w, d.directives)
            w.sp()
            _sels(w, d.sels)
        d.span = start + w.pos()
    return w.text()


def walk_fields(sels, frags, seen=None):
    """Yield every Field reachable in a selection list (through fragments)."""
    seen = set() if seen is None else seen
    for s in sels:
        if s.kind == "field":
            yield s
            if s.sels:
                yield from walk_fields(s.sels, frags, seen)
        elif s.kind == "inline":
            yield from walk_fields(s.sels, frags, seen)
        elif s.name in frags and s.name not in seen:
            seen.add(s.name)
            yield from walk_fields(frags[s.name].sels, frags, seen)
