"""Plain-Python schema model and SDL printer (shares no code with tartiflette).

Type references are nested tuples: ("N", name) | ("L", inner) | ("NN", inner).
Values (literals) are tuples: ("int", 3) ("float", 1.5) ("str", "x") ("bool", True) ("null",)
("enum", "A") ("list", [v...]) ("obj", [(k, v)...]) ("var", "name").
"""
import json
import zlib

ABSENT = ("absent",)

BUILTIN_SCALARS = ("Int", "Float", "String", "Boolean", "ID")


def N(name):
    return ("N", name)


def L(t):
    return ("L", t)


def NN(t):
    assert t[0] != "NN"
    return ("NN", t)


def tstr(t):
    if t[0] == "N":
        return t[1]
    if t[0] == "L":
        return "[" + tstr(t[1]) + "]"
    return tstr(t[1]) + "!"


def named(t):
    while t[0] != "N":
        t = t[1]
    return t[1]


def nullable(t):
    return t[1] if t[0] == "NN" else t


def is_nn(t):
    return t[0] == "NN"


def is_list(t):
    return nullable(t)[0] == "L"


class ScalarDef:
    kind = "SCALAR"

    def __init__(self, name, custom=None, directives=None):
        self.name = name
        self.custom = custom  # None for built-ins, else "xstr" | "xnum"
        self.directives = directives or []
        self.description = None


class EnumDef:
    kind = "ENUM"

    def __init__(self, name, values, directives=None):
        self.name = name
        self.values = list(values)  # [EnumValueDef]
        self.directives = directives or []
        self.description = None

    def names(self):
        return [v.name for v in self.values]


class EnumValueDef:
    def __init__(self, name, directives=None, deprecated=None):
        self.name = name
        self.directives = directives or []
        self.deprecated = deprecated  # None | reason string | True (no reason)
        self.description = None


class ArgDef:
    def __init__(self, name, type, default=ABSENT, directives=None):
        self.name = name
        self.type = type
        self.default = default
        self.directives = directives or []
        self.description = None


class FieldDef:
    def __init__(self, name, type, args=None, impl="resolver", directives=None):
        self.name = name
        self.type = type
        self.args = args or {}  # name -> ArgDef (ordered)
        self.impl = impl  # "resolver" | "key" | "attr"
        self.lc = None  # Resolver(list_concurrently=)
        self.pc = None  # Resolver(parent_concurrently=)
        self.ac = None  # Resolver(arguments_coercer=): None | "gather" | "sync"
        self.field_type_resolver = False  # Resolver(type_resolver=)
        self.directives = directives or []
        self.deprecated = None
        self.description = None
        self.hidden = False  # @nonIntrospectable


class ObjectDef:
    kind = "OBJECT"

    def __init__(self, name, fields=None, interfaces=None, directives=None):
        self.name = name
        self.fields = fields or {}
        self.interfaces = interfaces or []
        self.directives = directives or []
        self.description = None


class InterfaceDef:
    kind = "INTERFACE"

    def __init__(self, name, fields=None, directives=None):
        self.name = name
        self.fields = fields or {}
        self.directives = directives or []
        self.type_resolver = False  # @TypeResolver registered
        self.description = None


class UnionDef:
    kind = "UNION"

    def __init__(self, name, members, directives=None):
        self.name = name
        self.members = list(members)
        self.directives = directives or []
        self.type_resolver = False
        self.description = None


class InputDef:
    kind = "INPUT_OBJECT"

    def __init__(self, name, fields=None, directives=None):
        self.name = name
        self.fields = fields or {}  # name -> ArgDef
        self.directives = directives or []
        self.description = None


class DirectiveDef:
    def __init__(self, name, locations, args=None):
        self.name = name
        self.locations = list(locations)
        self.args = args or {}
        self.description = None


class DirUse:
    """A directive application: @name(args) with args [(name, Value)]."""

    def __init__(self, name, args=None):
        self.name = name
        self.args = args or []


class Schema:
    def __init__(self):
        self.types = {}
        self.query = "Query"
        self.mutation = None
        self.subscription = None
        self.directives = {}
        self.explicit_schema_def = False
        self.schema_directives = []

    # ---- lookups -------------------------------------------------------------------------
    def add(self, t):
        self.types[t.name] = t
        return t

    def t(self, name):
        return self.types[name]

    def kind_of(self, name):
        if name in BUILTIN_SCALARS:
            return "SCALAR"
        return self.types[name].kind

    def is_leaf(self, name):
        return self.kind_of(name) in ("SCALAR", "ENUM")

    def is_composite(self, name):
        return self.kind_of(name) in ("OBJECT", "INTERFACE", "UNION")

    def is_input(self, name):
        return self.kind_of(name) in ("SCALAR", "ENUM", "INPUT_OBJECT")

    def objects(self):
        return [t for t in self.types.values() if t.kind == "OBJECT"]

    def possible(self, name):
        """Set of object type names a composite type can be at runtime."""
        k = self.kind_of(name)
        if k == "OBJECT":
            return [name]
        if k == "UNION":
            return list(self.types[name].members)
        if k == "INTERFACE":
            return [o.name for o in self.objects() if name in o.interfaces]
        return []

    def fields_of(self, name):
        t = self.types[name]
        return t.fields if t.kind in ("OBJECT", "INTERFACE") else {}

    def roots(self):
        return [r for r in (self.query, self.mutation, self.subscription) if r]


# ---- SDL printing --------------------------------------------------------------------------

def value_str(v):
    k = v[0]
    if k == "int":
        return str(v[1])
    if k == "float":
        return v[1] if isinstance(v[1], str) else repr(float(v[1]))
    if k == "str":
        return json.dumps(v[1], ensure_ascii=False)
    if k == "bool":
        return "true" if v[1] else "false"
    if k == "null":
        return "null"
    if k == "enum":
        return v[1]
    if k == "list":
        return "[" + ", ".join(value_str(x) for x in v[1]) + "]"
    if k == "obj":
        return "{" + ", ".join("%s: %s" % (n, value_str(x)) for n, x in v[1]) + "}"
    if k == "var":
        return "$" + v[1]
    raise ValueError(v)


def _block_ok(text):
    """A string that can be written as a block string whose value is the same under the raw reading and under
    BlockStringValue(): one line, no surrounding blanks, no quote at either end, no triple quote."""
    return (bool(text) and "\n" not in text and "\r" not in text and text == text.strip() and not text.startswith('"')
            and not text.endswith('"') and '"""' not in text and not text.endswith("\\"))


def sdl_value_str(v):
    """value_str for SDL text: some strings are written as block strings (position-independent choice)."""
    k = v[0]
    if k == "str" and _block_ok(v[1]) and zlib.crc32(v[1].encode("utf-8", "replace")) % 3 == 0:
        return '"""' + v[1] + '"""'
    if k == "list":
        return "[" + ", ".join(sdl_value_str(x) for x in v[1]) + "]"
    if k == "obj":
        return "{" + ", ".join("%s: %s" % (n, sdl_value_str(x)) for n, x in v[1]) + "}"
    return value_str(v)


def dirs_str(dirs):
    out = ""
    for d in dirs:
        out += " @" + d.name
        if d.args:
            out += "(" + ", ".join("%s: %s" % (n, sdl_value_str(v)) for n, v in d.args) + ")"
    return out


def _desc(d, indent=""):
    if d is None:
        return ""
    return indent + '"""' + d + '"""\n'


class _NullReason:
    """@deprecated(reason: null): deprecated, explicitly without a reason."""

    def __repr__(self):
        return "NULL_REASON"

    def __deepcopy__(self, memo):
        return self

    def __copy__(self):
        return self


NULL_REASON = _NullReason()


def _dep(dep):
    if dep is None:
        return ""
    if dep is True:
        return " @deprecated"
    if dep is NULL_REASON:
        return " @deprecated(reason: null)"
    return " @deprecated(reason: %s)" % sdl_value_str(("str", dep))


def arg_str(a):
    s = ""
    if getattr(a, "description", None) is not None:
        s = '"""%s""" ' % a.description
    s += "%s: %s" % (a.name, tstr(a.type))
    if a.default is not ABSENT:
        s += " = " + sdl_value_str(a.default)
    return s + dirs_str(a.directives)


def field_str(f):
    s = ""
    if getattr(f, "description", None) is not None:
        s = '"""%s""" ' % f.description
    s += f.name
    if f.args:
        s += "(" + ", ".join(arg_str(a) for a in f.args.values()) + ")"
    s += ": " + tstr(f.type) + _dep(f.deprecated)
    if f.hidden:
        s += " @nonIntrospectable"
    return s + dirs_str(f.directives)


def typedef_chunks(schema, t):
    """SDL text of one type definition."""
    k = t.kind
    d = _desc(t.description)
    if k == "SCALAR":
        return d + "scalar %s%s\n" % (t.name, dirs_str(t.directives))
    if k == "ENUM":
        body = "".join("  %s%s%s\n" % (v.name, _dep(v.deprecated), dirs_str(v.directives)) for v in t.values)
        return d + "enum %s%s {\n%s}\n" % (t.name, dirs_str(t.directives), body)
    if k == "UNION":
        return d + "union %s%s = %s\n" % (t.name, dirs_str(t.directives), " | ".join(t.members))
    if k == "INPUT_OBJECT":
        body = "".join("  %s\n" % arg_str(a) for a in t.fields.values())
        return d + "input %s%s {\n%s}\n" % (t.name, dirs_str(t.directives), body)
    if k == "INTERFACE":
        body = "".join("  %s\n" % field_str(f) for f in t.fields.values())
        return d + "interface %s%s {\n%s}\n" % (t.name, dirs_str(t.directives), body)
    if k == "OBJECT":
        impl = (" implements " + " & ".join(t.interfaces)) if t.interfaces else ""
        body = "".join("  %s\n" % field_str(f) for f in t.fields.values())
        return d + "type %s%s%s {\n%s}\n" % (t.name, impl, dirs_str(t.directives), body)
    raise ValueError(k)


def directive_def_str(d):
    s = _desc(d.description) + "directive @" + d.name
    if d.args:
        s += "(" + ", ".join(arg_str(a) for a in d.args.values()) + ")"
    return s + " on " + " | ".join(d.locations) + "\n"


def schema_def_str(schema):
    if not (schema.explicit_schema_def or schema.query != "Query" or
            (schema.mutation and schema.mutation != "Mutation") or
            (schema.subscription and schema.subscription != "Subscription") or schema.schema_directives):
        return ""
    s = "schema%s {\n  query: %s\n" % (dirs_str(schema.schema_directives), schema.query)
    if schema.mutation:
        s += "  mutation: %s\n" % schema.mutation
    if schema.subscription:
        s += "  subscription: %s\n" % schema.subscription
    return s + "}\n"


def sdl_chunks(schema):
    chunks = []
    sd = schema_def_str(schema)
    if sd:
        chunks.append(sd)
    for d in schema.directives.values():
        chunks.append(directive_def_str(d))
    for t in schema.types.values():
        chunks.append(typedef_chunks(schema, t))
    return chunks


def print_sdl(schema):
    return "\n".join(sdl_chunks(schema))
