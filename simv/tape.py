"""The Tape: the only source of choice in a simulated run.

One integer seed decides everything.  Choices are drawn through named streams (schema, doc, vars,
data, fault, sched, ops, ...).  Each stream is an on-demand list of non-negative integers produced
by ``random.Random(f"{seed}:{stream}")`` (string seeding hashes through SHA-512, so it does not
depend on PYTHONHASHSEED).  A replayed or shrunk tape that runs out yields 0, the "simplest"
choice.  Everything consumed is recorded so that a run can be replayed exactly from the record.
"""
import random


class Tape:
    __slots__ = ("seed", "preset", "used", "_rngs")

    def __init__(self, seed, preset=None):
        self.seed = seed
        self.preset = preset
        self.used = {}
        self._rngs = {}

    def draw(self, stream, n):
        """Return an int in [0, n).  n <= 1 consumes nothing."""
        if n <= 1:
            return 0
        lst = self.used.get(stream)
        if lst is None:
            lst = self.used[stream] = []
        if self.preset is not None:
            p = self.preset.get(stream)
            if p is not None and stream.startswith("@"):
                p = None
            i = len(lst)
            v = (p[i] % n) if (p is not None and i < len(p)) else 0
        else:
            rng = self._rngs.get(stream)
            if rng is None:
                rng = self._rngs[stream] = random.Random("%s:%s" % (self.seed, stream))
            v = rng.randrange(n)
        lst.append(v)
        return v

    # conveniences -------------------------------------------------------------------------
    def choose(self, stream, seq):
        return seq[self.draw(stream, len(seq))]

    def chance(self, stream, pct):
        """True with probability pct/100 (a zero draw is False: the simplest choice is 'no')."""
        if pct <= 0:
            return False
        if pct >= 100:
            return True
        return self.draw(stream, 100) >= 100 - pct

    def rint(self, stream, lo, hi):
        """Integer in [lo, hi]."""
        return lo + self.draw(stream, hi - lo + 1)

    def weighted(self, stream, pairs):
        """pairs: [(weight, value), ...] -- first entry is the simplest."""
        total = sum(w for w, _ in pairs)
        k = self.draw(stream, total)
        for w, v in pairs:
            if k < w:
                return v
            k -= w
        return pairs[-1][1]

    def shuffle(self, stream, seq):
        seq = list(seq)
        for i in range(len(seq) - 1, 0, -1):
            j = i - self.draw(stream, i + 1)  # draw 0 keeps the element in place
            seq[i], seq[j] = seq[j], seq[i]
        return seq

    def sub(self, stream):
        return SubTape(self, stream)

    def snapshot(self):
        return {k: list(v) for k, v in self.used.items()}


class SubTape:
    """A view of one stream with the same conveniences (saves passing the stream name around)."""

    __slots__ = ("t", "s")

    def __init__(self, tape, stream):
        self.t = tape
        self.s = stream

    def draw(self, n):
        return self.t.draw(self.s, n)

    def choose(self, seq):
        return self.t.choose(self.s, seq)

    def chance(self, pct):
        return self.t.chance(self.s, pct)

    def rint(self, lo, hi):
        return self.t.rint(self.s, lo, hi)

    def weighted(self, pairs):
        return self.t.weighted(self.s, pairs)

    def shuffle(self, seq):
        return self.t.shuffle(self.s, seq)
