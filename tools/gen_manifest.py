#!/venv/bin/python
"""Regenerate /verif/MANIFEST.json from the table below (keeps the manifest valid at all times)."""
import json
import os

VERIF = os.path.dirname(os.path.dirname(os.path.abspath(__file__)))

CHECKS = {
    "C01": dict(
        level="exploration", design="DESIGN.md section 5 C01",
        technique="deterministic simulation: seeded schedules + refinement against a sequential reference executor",
        text="Seeded search over (schema, valid document, variables, resolver data, concurrency config, schedule); every run "
             "executes the real engine under SimLoop and compares data (key order, Python types) and the resolver-call history "
             "with a sequential transcription of the June-2018 execution algorithm. Sampling, not proof.",
        note="Trusts the reference executor, the Python parser stub (C library absent) and the generator bounds."),
}

NOT_APPLICABLE = {
    "C10": "pure synchronous functions of one value (scalar coercion laws): no schedule, clock, fault, interleaving or history "
           "for a simulator to control; deciding them is boundary-value enumeration, a different technique (DESIGN.md section 2)",
    "C12": "whether create_engine refuses an SDL is a pure function of the SDL text and registered implementations; no user "
           "coroutine is awaited before validation and the statement has no history clause (DESIGN.md section 2)",
}

PENDING_REASON = "check not built yet in this round (planned, see DESIGN.md section 5); not claimed until it is"


def main():
    props = [json.loads(l)["id"] for l in open(os.path.join(VERIF, "properties.jsonl"))]
    checks = []
    for pid in props:
        c = CHECKS.get(pid)
        if not c:
            continue
        checks.append({
            "property_id": pid,
            "quick_cmd": "./check run %s --tier quick" % pid,
            "thorough_cmd": "./check run %s --tier thorough" % pid,
            "evidence_file": "/verif/evidence/%s.json" % pid,
            "replay_cmd_template": "./check replay {path}",
            "engine": "simv",
            "level_claimed": {"category": c["level"], "text": c["text"], "design_ref": c["design"]},
            "level_note": c["note"],
            "technique": c["technique"],
        })
    na = []
    for pid in props:
        if pid in CHECKS:
            continue
        na.append({"property_id": pid, "reason": NOT_APPLICABLE.get(pid, PENDING_REASON)})
    m = {
        "version": 1,
        "setup_cmd": "./check selftest setup",
        "hooks": {
            "guard": "TARTIFLETTE_VERIF",
            "enable": "no hook in /repo is needed: every seam is reached from outside (custom event loop, cffi dlopen wrapper "
                      "for the absent parser library, public decorators, create_engine parameters); checks import the working "
                      "tree of /repo (or VERIF_REPO) directly",
            "baseline_off_cmd": "cd /repo && /venv/bin/python -m pytest -ra -q -p no:cacheprovider --timeout=900 --continue-on-collection-errors",
            "source_commits": [],
            "add_only": True,
        },
        "engines": [{
            "name": "simv", "path": "/verif/simv",
            "serves_properties": sorted(CHECKS),
            "kind_free_text": "deterministic simulator: SimLoop (virtual-time asyncio loop with seeded gate scheduler), "
                              "multi-stream integer tape, harness actors with fault injection, sequential reference executor, "
                              "tape-level minimiser and replay",
        }],
        "checks": checks,
        "not_applicable": na,
        "notes": "Run with /venv/bin/python; VERIF_SEED, VERIF_TIER, VERIF_JOBS, VERIF_BUDGET_S, VERIF_REPO honoured. Exit 0 = held, "
                 "1 = VIOLATION line(s), 2 = harness error. Known findings: /verif/known_findings.json.",
    }
    with open(os.path.join(VERIF, "MANIFEST.json"), "w") as f:
        json.dump(m, f, indent=1)
    print("MANIFEST.json: %d checks, %d not claimed" % (len(checks), len(na)))


if __name__ == "__main__":
    main()
