#!/venv/bin/python
"""Regenerate /verif/MANIFEST.json from the table below (keeps the manifest valid at all times)."""
import json
import os

VERIF = os.path.dirname(os.path.dirname(os.path.abspath(__file__)))

CHECKS = {
    "C01": dict(
        level="exploration", design="DESIGN.md section 5 C01",
        technique="deterministic simulation: seeded schedules + refinement against a sequential reference executor",
        text="Seeded search over (schema, valid document, variables, resolver data, concurrency config, schedule); every run "
             "executes the real engine under SimLoop and compares data (key order, Python types) and the resolver-call history "
             "with a sequential transcription of the June-2018 execution algorithm. Sampling, not proof.",
        note="Trusts the reference executor, the Python parser stub (C library absent) and the generator bounds. Engine construction "
             "(create_engine / Engine+cook variants, custom default resolver / type resolver / json loader, respelt SDL) is a swarm "
             "dimension. One known finding (@skip with a null variable drops the selection), attributed only when the response equals "
             "the reference plan with exactly that deviation."),
}

CHECKS.update({
    "C02": dict(
        level="fault_enumeration", design="DESIGN.md section 5 C02",
        technique="deterministic simulation with fault injection at the resolver seam: per-request enumeration of single faults, sampled pairs/subsets, reference executor with faults as oracle",
        text="For every generated request the fault sites (each completed field / list-item position x applicable failure kind) are "
             "enumerated; thorough runs every single fault of the request (cap 150), quick a seeded sample of 12, plus pairs and "
             "random subsets. Each faulty execution runs on the real engine under its own seeded schedule and is compared with the "
             "reference executor given the same faults and with the engine's own fault-free response. Exhaustive per generated "
             "request only; requests themselves are sampled.",
        note="Set inclusion for the number of errors under an already-doomed ancestor; messages compared only for injected tokens and library errors. "
             "One known finding (a resolver failing with a non-Exception BaseException / foreign CancelledError is not contained), injected "
             "in a dedicated execution and classified by mode."),
    "C08": dict(
        level="exploration", design="DESIGN.md section 5 C08",
        technique="deterministic simulation: seeded schedulers (random, FIFO, LIFO, reverse, starvation, PCT) + exhaustive DFS over completion orders for small requests, cross-comparison of runs",
        text="One request is executed under several of the 8 concurrency configurations x K seeded schedules; requests with <= 5 "
             "suspension points are enumerated exhaustively (all completion orders). All responses must agree; per run the event "
             "log must show started == finished, no double start, nothing left behind, termination.",
        note="Cooperative scheduling is the complete concurrency model of single-threaded asyncio; resolvers are pure by construction."),
    "C09": dict(
        level="exploration", design="DESIGN.md section 5 C09",
        technique="deterministic simulation: event-log ordering check over seeded schedules with injected failures",
        text="Mutation documents with 2-5 root fields run under seeded schedules of the nested resolvers, with failures placed on "
             "nullable and non-null root fields; the recorded start/finish events must show root subtrees strictly one after another.",
        note="Trusts the event log written by harness resolvers (global sequence numbers)."),
    "C15": dict(
        level="exploration", design="DESIGN.md section 5 C15",
        technique="deterministic simulation: interleaved client tasks on one engine, cancellation fault, twin-engine solo runs as oracle",
        text="2-8 requests run as concurrent client tasks of one SimLoop on one engine (staggered starts, optional cancellation of one "
             "client, one exception instance shared between requests); each response must equal the same request alone on a twin "
             "engine, and requests replayed afterwards must equal a fresh engine.",
        note="Oracle needs no model of GraphQL: only executions of the real engine are compared. One known finding (shared exception instance)."),
    "C16": dict(
        level="exploration", design="DESIGN.md section 5 C16",
        technique="deterministic simulation: seeded request histories (state machine) x cache configurations incl. a lossy cache fault, fresh-engine oracle",
        text="Histories of 5-40 requests (valid / invalid / broken, str / bytes, other variables, pairs in flight) against engines with "
             "default LRU, LRU(1), LRU(2), dict memo, lossy memo and no cache; every response is compared with a freshly cooked "
             "uncached engine's response to the same request.",
        note="Fresh engine = new schema name cooked per distinct request."),
})

CHECKS.update({
    "C06": dict(
        level="exploration", design="DESIGN.md section 5 C06",
        technique="deterministic simulation runs of valid-by-construction documents (generator knobs at maximum) against the reference executor; weak schedule dimension, stated in DESIGN.md section 2",
        text="Seeded search over documents that are valid by construction against the full June-2018 rule set, with the "
             "legal-but-unusual constructions over-weighted (fragment DAGs with sharing, repeated spreads, definitions after use, "
             "variables only in fragments, directives everywhere, introspection fields); the engine must not answer with "
             "request-level errors and data must equal the reference executor.",
        note="Validation is synchronous: the schedule is sampled but adds no assurance here; the deciding step is the seeded search over documents."),
    "C07": dict(
        level="fault_enumeration", design="DESIGN.md section 5 C07",
        technique="fault injection on the client's message: catalogue of rule-breaking rewrites enumerated at every applicable node of generated documents, executed under the simulator; oracle = refusal + empty event log",
        text="For each generated valid document every rewrite of a catalogue (25 rule families x kinds of site) is applied at every "
             "applicable node (thorough: all, cap 400; quick: 40 sampled); each corrupted request must yield data null, errors, and "
             "an event log with no resolver / type-resolver / hook event.",
        note="Rewrites are trusted to break the named rule only. Exhaustive per generated document, documents sampled."),
})

CHECKS.update({
    "C03": dict(
        level="exploration", design="DESIGN.md section 5 C03",
        technique="deterministic simulation with value-corruption faults at the resolver seam; schema-conformance invariant on every response",
        text="1..all positions of a generated request (resolver results, list items, data read by default resolvers) are replaced "
             "by values from an adversarial universe; under seeded schedules the engine must return, the response must be "
             "JSON-serialisable and conform to schema + selection, untouched parts must equal the reference, and nulls replacing "
             "supplied values must be explained by errors.",
        note="Off-type coercions the spec allows are only checked structurally."),
    "C04": dict(
        level="exploration", design="DESIGN.md section 5 C04",
        technique="seeded search over (variable types, defaults, mutated JSON values) executed in the simulator; oracle = reference CoerceVariableValues + event-log check that nothing ran on refusal; weak schedule dimension (DESIGN.md section 2)",
        text="Variable definitions over every input type and wrapper nesting, JSON values mutated at random depth from a borderline "
             "pool; the reference CoerceVariableValues decides accept / reject; on reject nothing may run and every offending "
             "variable must be reported, on accept resolvers must observe exactly the coerced values.",
        note="Integral floats for Int/ID accept either verdict."),
    "C05": dict(
        level="exploration", design="DESIGN.md section 5 C05",
        technique="seeded metamorphic search (literal / variable / nested variable / default spellings of one value) executed in the simulator; oracle = reference CoerceArgumentValues + equality of recorded argument dictionaries; weak schedule dimension",
        text="One value is written as literal, variable, variable nested in list/object literals, identical schema default, "
             "omitted and null in aliases of one request, next to a sibling whose non-null argument receives a runtime null; "
             "recorded argument dictionaries must equal the reference and each other, and the failing sibling must fail alone.",
        note="Directive-argument positions are covered by C13's machinery."),
})

CHECKS.update({
    "C13": dict(
        level="exploration", design="DESIGN.md section 5 C13",
        technique="deterministic simulation: seeded directive arrangements x requests x hook suspension schedules; oracle = recorded hook-call history (exactly once, coerced directive args) + non-commuting tag fold",
        text="0-3 tagging directive instances are placed at every attachable location of a schema family and on request fields; "
             "inputs arrive as literals, variables and nested variables; every hook suspends at a scheduler point. The hook-call "
             "multiset and the tagged values seen by resolvers and in data must equal the fold the property states.",
        note="Null values: the statement is silent; the model follows the engine (type-level hooks receive None). Enum value vs enum type order not asserted."),
    "C14": dict(
        level="exploration", design="DESIGN.md section 5 C14",
        technique="deterministic simulation: interleaved subscription consumers and sources pausing at scheduler points, event histories with failing / null payloads; oracle = per-event twin execute(initial_value=event) + event-log ordering",
        text="1-3 subscriptions (+ ordinary queries) are consumed concurrently in one SimLoop; each source yields a seeded finite "
             "event sequence. Responses must be 1:1 and in order with events, each equal to execute(text, initial_value=event) on a "
             "twin engine and to the reference executor; failing events must not end the stream; refused requests yield one "
             "errors-only response without starting the source.",
        note="Argument-coercion failures of the source field itself are outside the statement and not generated."),
})

CHECKS.update({
    "C17": dict(
        level="exploration", design="DESIGN.md section 5 C17",
        technique="deterministic simulation: seeded interleavings of registrations and overlapping cooks of 2-4 bundles in one process; oracle = the same bundle built alone in a forked fresh process",
        text="Every single registration (resolver, type resolver, scalar, subscription, directive) of 2-4 name-overlapping bundles is "
             "interleaved with the cook starts in a seeded order; cooks overlap through synthesized modules whose async bake pauses "
             "at scheduler gates. Probe requests incl. introspection and the actors they invoke must equal those of the bundle "
             "built alone in a forked child with a clean registry.",
        note="Fresh process = fork of the worker before anything of the run is registered."),
})

CHECKS.update({
    "C11": dict(
        level="exploration", design="DESIGN.md section 5 C11",
        technique="deterministic simulation of the file-system seam (seeded split of the SDL into files, permuted directory enumeration, extensions before definitions) with concurrently cooked / queried engines; oracle = model -> SDL -> engine -> introspection -> model round trip",
        text="A schema model with every type kind, defaults, deprecations, hidden fields, custom directives and members moved into "
             "extend definitions of every kind is supplied as string, file, list of files and directory (seeded file split, glob "
             "order permuted); the engines are cooked and queried concurrently; normalised __schema / __type / __typename answers "
             "must equal the model and each other.",
        note="Only directory enumeration order and file boundaries are simulated; file contents are real temporary files. Ordering inside introspection lists is not compared."),
})

CHECKS.update({
    "C18": dict(
        level="exploration", design="DESIGN.md section 5 C18",
        technique="deterministic simulation: envelope invariant monitored on every response of every check + seeded corruption of the call (text, operation name, variables, context) + error-coercer completion schedules",
        text="Every response produced in any run of any check is checked against the envelope invariant. Dedicated runs corrupt the "
             "call (token-level text mutations, deep nesting, unicode / bytes spellings, arbitrary operation names, variables and "
             "contexts, several anonymous operations) and cook the engine with an error_coercer suspending at scheduler gates: "
             "execute must return a well-formed response, refuse without running anything where the property says so, and use "
             "each coercer result exactly once in error order.",
        note="The C lexer/parser is a stub: nothing is claimed about libgraphqlparser's robustness against arbitrary bytes."),
})

NOT_APPLICABLE = {
    "C10": "pure synchronous functions of one value (scalar coercion laws): no schedule, clock, fault, interleaving or history "
           "for a simulator to control; deciding them is boundary-value enumeration, a different technique (DESIGN.md section 2)",
    "C12": "whether create_engine refuses an SDL is a pure function of the SDL text and registered implementations; no user "
           "coroutine is awaited before validation and the statement has no history clause (DESIGN.md section 2)",
}

PENDING_REASON = "not claimed"


def main():
    props = [json.loads(l)["id"] for l in open(os.path.join(VERIF, "properties.jsonl"))]
    checks = []
    for pid in props:
        c = CHECKS.get(pid)
        if not c:
            continue
        checks.append({
            "property_id": pid,
            "quick_cmd": "./check run %s --tier quick" % pid,
            "thorough_cmd": "./check run %s --tier thorough" % pid,
            "evidence_file": "/verif/evidence/%s.json" % pid,
            "replay_cmd_template": "./check replay {path}",
            "engine": "simv",
            "level_claimed": {"category": c["level"], "text": c["text"], "design_ref": c["design"]},
            "level_note": c["note"],
            "technique": c["technique"],
        })
    na = []
    for pid in props:
        if pid in CHECKS:
            continue
        na.append({"property_id": pid, "reason": NOT_APPLICABLE.get(pid, PENDING_REASON)})
    m = {
        "version": 1,
        "setup_cmd": "./check selftest setup",
        "hooks": {
            "guard": "TARTIFLETTE_VERIF",
            "enable": "no hook in /repo is needed: every seam is reached from outside (custom event loop, cffi dlopen wrapper "
                      "for the absent parser library, public decorators, create_engine parameters); checks import the working "
                      "tree of /repo (or VERIF_REPO) directly",
            "baseline_off_cmd": "cd /repo && /venv/bin/python -m pytest -ra -q -p no:cacheprovider --timeout=900 --continue-on-collection-errors",
            "source_commits": [],
            "add_only": True,
        },
        "engines": [{
            "name": "simv", "path": "/verif/simv",
            "serves_properties": sorted(CHECKS),
            "kind_free_text": "deterministic simulator: SimLoop (virtual-time asyncio loop with seeded gate scheduler), "
                              "multi-stream integer tape, harness actors with fault injection, sequential reference executor, "
                              "tape-level minimiser and replay",
        }],
        "checks": checks,
        "not_applicable": na,
        "notes": "Run with /venv/bin/python; VERIF_SEED, VERIF_TIER, VERIF_JOBS, VERIF_BUDGET_S, VERIF_REPO honoured. Exit 0 = held, "
                 "1 = VIOLATION line(s), 2 = harness error. Known findings: /verif/known_findings.json.",
    }
    with open(os.path.join(VERIF, "MANIFEST.json"), "w") as f:
        json.dump(m, f, indent=1)
    print("MANIFEST.json: %d checks, %d not claimed" % (len(checks), len(na)))


if __name__ == "__main__":
    main()
