#!/venv/bin/python
"""Evaluate a seeded change: tools/eval_seeded.py <patch.diff> <demo.py|-> [--checks C01,C02] [--runs N] [--tier quick]

Makes a scratch copy of /repo outside /repo and /verif, verifies that the demo passes on the
pristine copy and fails on the patched one, that the pinned test suite still gives the baseline
(641 passed), then runs the named checks (default: all) against the patched copy through
VERIF_REPO and reports which of them raise a VIOLATION.  The scratch copy is removed afterwards."""
import json
import os
import shutil
import subprocess
import sys
import tempfile
import time

VERIF = os.path.dirname(os.path.dirname(os.path.abspath(__file__)))
PY = "/venv/bin/python"


def sh(cmd, **kw):
    return subprocess.run(cmd, capture_output=True, text=True, **kw)


def main():
    args = [a for a in sys.argv[1:] if not a.startswith("--")]
    opts = dict(a[2:].split("=", 1) if "=" in a else (a[2:], "1") for a in sys.argv[1:] if a.startswith("--"))
    patch, demo = os.path.abspath(args[0]), (os.path.abspath(args[1]) if args[1] != "-" else None)
    checks = opts.get("checks")
    if checks:
        checks = checks.split(",")
    else:
        checks = [c["property_id"] for c in json.load(open(os.path.join(VERIF, "MANIFEST.json")))["checks"]]
    scratch = tempfile.mkdtemp(prefix="simv_seeded_")
    report = {"patch": patch, "demo": demo, "checks": {}}
    try:
        pristine = os.path.join(scratch, "pristine")
        patched = os.path.join(scratch, "patched")
        for d in (pristine, patched):
            sh(["git", "-C", "/repo", "worktree", "add", "--detach", "-q", d, "HEAD"])
        r = sh(["git", "-C", patched, "apply", patch])
        if r.returncode != 0:
            r = sh(["git", "-C", patched, "apply", "--3way", patch])
        report["applies"] = r.returncode == 0
        if r.returncode != 0:
            report["apply_error"] = r.stderr[-500:]
            print(json.dumps(report, indent=1))
            return 2
        if demo:
            a = sh([PY, demo, pristine], timeout=300)
            b = sh([PY, demo, patched], timeout=300)
            report["demo_pristine"] = {"exit": a.returncode, "tail": (a.stdout + a.stderr)[-200:]}
            report["demo_patched"] = {"exit": b.returncode, "tail": (b.stdout + b.stderr)[-300:]}
        if "skip-tests" not in opts:
            t = sh([PY, "-m", "pytest", "-q", "-p", "no:cacheprovider", "--timeout=900", "--continue-on-collection-errors"], cwd=patched, timeout=1800)
            report["pinned_suite"] = (t.stdout.strip().splitlines() or ["?"])[-1]
        for cid in checks:
            env = dict(os.environ)
            env.update(VERIF_REPO=patched, VERIF_EVIDENCE_DIR=os.path.join(scratch, "ev"), VERIF_REPLAY_DIR=os.path.join(scratch, "replays"),
                       VERIF_NO_SHRINK="1")
            cmd = [os.path.join(VERIF, "check"), "run", cid, "--tier", opts.get("tier", "quick")]
            if "runs" in opts:
                cmd += ["--runs", opts["runs"]]
            t0 = time.time()
            p = sh(cmd, env=env, timeout=3600)
            v = [l for l in p.stdout.splitlines() if l.startswith("VIOLATION")]
            first = next((l.strip()[:260] for l in p.stdout.splitlines() if l.startswith("  clause=")), "")
            report["checks"][cid] = {"caught": bool(v), "exit": p.returncode, "violations": len(v), "first": first, "wall_s": round(time.time() - t0, 1)}
            print("%s: %s %s" % (cid, "CAUGHT" if v else ("harness-error" if p.returncode == 2 else "missed"), first), flush=True)
    finally:
        for d in ("pristine", "patched"):
            sh(["git", "-C", "/repo", "worktree", "remove", "--force", os.path.join(scratch, d)])
        shutil.rmtree(scratch, ignore_errors=True)
    print(json.dumps(report, indent=1))
    return 0


if __name__ == "__main__":
    sys.exit(main())
