#!/venv/bin/python
"""Re-demonstrate every *fixed* finding with the current machinery: for each `fix:` commit of /repo a scratch
worktree of its PARENT is checked with the property's check (through VERIF_REPO); the check must report a
VIOLATION there.  The minimised replay file is stored under /verif/findings/.  Usage: tools/regress_findings.py"""
import json
import os
import shutil
import subprocess
import sys
import tempfile

VERIF = os.path.dirname(os.path.dirname(os.path.abspath(__file__)))
# (finding id, property check to run, clause that must appear, substring of the fix commit subject)
FIXES = [
    ("fixed-C06-fragment-cycle-false-positive", "C06", "valid_request_refused", "fragment cycle rule"),
    ("fixed-C05-id-default-int", "C05", "spellings_differ", "ID default values"),
    ("fixed-C07-inline-fragment-spread-impossible", "C07", "invalid_document_executed", "impossible inline fragments"),
    ("fixed-C07-second-subscription-two-roots", "C07", "ran_although_invalid", "single-root-field rule"),
    ("fixed-C03-int-output-float", "C03", "nonconforming_data", "Int result coercion"),
    ("fixed-C05-float-literal-inf", "C05", "non_finite_float_delivered", "Float literals beyond"),
    ("fixed-C11-default-string-not-escaped", "C11", "differs", "string default values"),
    ("fixed-C02-unprintable-exception-lands-in-data", "C02", "data_mismatch", "exception whose __str__ raises"),
    ("fixed-C11-schema-extension-directive-only", "C11", "type_differs", "directive-only schema extension"),
    ("fixed-C11-interface-field-covariance", "C11", "cook_failed", "valid implementation field type"),
    ("fixed-C07-enum-string-literal", "C07", "string-spelling-a-value", "literal spelling an enum value"),
    ("fixed-C07-reserved-name-field", "C07", "reserved-name", "starts with two underscores"),
    ("fixed-C14-subscribe-raises-on-argument-failure", "C14", "subscribe_raised", "failing argument coercion of the root field"),
    ("fixed-C13-literal-null-argument", "C13", "hook_invocations_differ", "literal null argument runs"),
    ("fixed-C13-hidden-object-abstract", "C13", "", "nulled by its type's output hooks"),
    ("fixed-C16-shared-error-path", "C16", "differs_from_fresh_engine", "own error path list"),
    ("fixed-C18-operation-without-root-type", "C18", "no root type", "has no root type in the schema"),
    ("fixed-C03-empty-multiple-exception", "C03", "MultipleException", "empty MultipleException"),
    ("fixed-C07-interface-typename", "C07", "__typename-on-interface", "__typename on an interface-typed selection"),
    ("fixed-C07-unknown-variable-type", "C07", "unknown-type", "type the schema does not define"),
    ("fixed-C11-argument-type-stub", "C11", "argument_type_described_differently", "bare named type is the type itself"),
    ("fixed-C11-empty-description", "C11", "VisitError", "empty description no longer crashes"),
    ("fixed-C11-sdl-escape-passes", "C11", "differs", "decoded in a single pass"),
    ("fixed-C11-leading-separators", "C11", "cook_failed", "optional leading separator"),
    ("fixed-C11-number-exponent-name", "C11", "", "number in SDL is one token"),
    ("fixed-C01-async-type-resolver", "C01", "", "coroutine type resolvers are awaited"),
    ("fixed-C06-fragment-chain-work", "C06", "acceptance_work_explodes", "walks the fragment spread graph as a tree"),
    ("fixed-C14-excluded-root-field", "C14", "subscribe_raised", "root field is excluded instead of raising IndexError"),
    ("fixed-C02-raising-getattr-exception", "C02", "raise_odd", "whose __getattr__ raises is reported"),
    ("fixed-C03-enum-result-equal-object", "C03", "EqName", "serialised as the declared value"),
    ("fixed-C06-single-root-type-conditions", "C06", "valid_request_refused", "follows CollectFields for fragments"),
    ("fixed-C02-frozen-exception", "C02", "raise_odd", "cannot be annotated in place"),
    ("fixed-C06-subscription-root-repeated", "C06", "valid_request_refused", "single root field several times"),
]


def sh(cmd, **kw):
    return subprocess.run(cmd, capture_output=True, text=True, **kw)


def main():
    log = sh(["git", "-C", "/repo", "log", "--format=%H %s"]).stdout.splitlines()
    out = {}
    only = set(sys.argv[1:])
    prev_path = os.path.join(VERIF, "findings", "regression_of_fixed_findings.json")
    if only and os.path.exists(prev_path):
        out = json.load(open(prev_path))
    for fid, check, clause, subject in FIXES:
        if only and fid not in only:
            continue
        commit = next((l.split()[0] for l in log if subject in l), None)
        if commit is None:
            print("%s: fix commit not found" % fid)
            continue
        scratch = tempfile.mkdtemp(prefix="simv_regress_")
        wt = os.path.join(scratch, "wt")
        try:
            sh(["git", "-C", "/repo", "worktree", "add", "--detach", "-q", wt, commit + "^"])
            env = dict(os.environ, VERIF_REPO=wt, VERIF_EVIDENCE_DIR=os.path.join(scratch, "ev"), VERIF_REPLAY_DIR=os.path.join(scratch, "rp"))
            p = sh([os.path.join(VERIF, "check"), "run", check, "--runs", "1500"], env=env, timeout=1800)
            lines = p.stdout.splitlines()
            hit = None
            for i, l in enumerate(lines):
                if l.startswith("VIOLATION") and i + 1 < len(lines) and clause in lines[i + 1]:
                    hit = l.split("replay=")[1].strip()
                    break
            if hit is None:
                hit = next((l.split("replay=")[1].strip() for l in lines if l.startswith("VIOLATION")), None)
            out[fid] = {"fix_commit": commit[:7], "parent_checked": True, "violation_reported": hit is not None}
            print("%s: parent of %s -> %s" % (fid, commit[:7], "VIOLATION reported" if hit else "NOT DETECTED"))
            if hit:
                shutil.copy(hit, os.path.join(VERIF, "findings", fid + ".replay.json"))
        finally:
            sh(["git", "-C", "/repo", "worktree", "remove", "--force", wt])
            shutil.rmtree(scratch, ignore_errors=True)
    json.dump(out, open(os.path.join(VERIF, "findings", "regression_of_fixed_findings.json"), "w"), indent=1)


if __name__ == "__main__":
    sys.exit(main())
