#!/venv/bin/python
"""tools/make_known_replay.py <CHECK> <known-id-prefix> <mode-key=value> <dest.replay.json> [--runs=N]
Temporarily hides the known-finding entries whose id starts with the prefix (in a scratch copy of /verif's
known_findings.json selected through VERIF_KNOWN_FILE), runs the check with shrinking, and stores the first minimised
replay whose violation signature contains key=value as /verif/findings/<dest>."""
import json
import os
import shutil
import subprocess
import sys
import tempfile

VERIF = os.path.dirname(os.path.dirname(os.path.abspath(__file__)))
check, prefix, kv, dest = sys.argv[1:5]
runs = next((a.split("=")[1] for a in sys.argv[5:] if a.startswith("--runs=")), "400")
key, val = kv.split("=", 1)
scratch = tempfile.mkdtemp(prefix="simv_known_")
try:
    k = json.load(open(os.path.join(VERIF, "known_findings.json")))
    k["findings"] = [f for f in k["findings"] if not f["id"].startswith(prefix)]
    kf = os.path.join(scratch, "known.json")
    json.dump(k, open(kf, "w"))
    env = dict(os.environ, VERIF_KNOWN_FILE=kf, VERIF_REPLAY_DIR=os.path.join(scratch, "rp"), VERIF_EVIDENCE_DIR=os.path.join(scratch, "ev"))
    subprocess.run([os.path.join(VERIF, "check"), "run", check, "--runs", runs], env=env, capture_output=True, text=True)
    d = os.path.join(scratch, "rp", check)
    for fn in sorted(os.listdir(d)) if os.path.isdir(d) else []:
        r = json.load(open(os.path.join(d, fn)))
        if str(r["violation"]["sig"].get(key)) == val:
            shutil.copy(os.path.join(d, fn), os.path.join(VERIF, "findings", dest))
            print("stored", dest, r["violation"]["clause"], r["violation"]["sig"])
            break
    else:
        print("no replay with %s found" % kv)
finally:
    shutil.rmtree(scratch, ignore_errors=True)
