#!/venv/bin/python
"""Re-evaluate the property-preserving changes under /verif/preserving/ with the current checks:
tools/eval_preserving.py [ids...] [--jobs=N].  Each patch is applied to a scratch worktree of /repo's HEAD
(never to /repo), every claimed check is run against it through VERIF_REPO, and any VIOLATION is
listed as an alarm (to be investigated: a false alarm of the machinery, unless the patch no longer
preserves the property on the current tree).  Results go to preserving/results_latest.json."""
import json
import os
import shutil
import subprocess
import sys
import tempfile

VERIF = os.path.dirname(os.path.dirname(os.path.abspath(__file__)))


def sh(cmd, **kw):
    return subprocess.run(cmd, capture_output=True, text=True, **kw)


def main():
    ids = [a for a in sys.argv[1:] if not a.startswith("--")]
    opts = dict(a[2:].split("=", 1) for a in sys.argv[1:] if a.startswith("--") and "=" in a)
    pres = os.path.join(VERIF, "preserving")
    all_ids = sorted(d for d in os.listdir(pres) if os.path.isdir(os.path.join(pres, d)))
    ids = ids or all_ids
    checks = [c["property_id"] for c in json.load(open(os.path.join(VERIF, "MANIFEST.json")))["checks"]]
    out = {}
    for pid in ids:
        scratch = tempfile.mkdtemp(prefix="simv_pres_")
        wt = os.path.join(scratch, "wt")
        rec = {"applies": False, "alarms": [], "harness_errors": [], "checks_run": 0}
        try:
            sh(["git", "-C", "/repo", "worktree", "add", "--detach", "-q", wt, "HEAD"])
            patch = os.path.join(pres, pid, "patch.diff")
            r = sh(["git", "-C", wt, "apply", patch])
            if r.returncode != 0:
                r = sh(["git", "-C", wt, "apply", "--3way", patch])
            rec["applies"] = r.returncode == 0
            if not rec["applies"]:
                rec["apply_error"] = r.stderr[-300:]
                out[pid] = rec
                print(pid, "does not apply to the current tree", flush=True)
                continue
            t = sh(["/venv/bin/python", "-m", "pytest", "-q", "-p", "no:cacheprovider", "--timeout=900", "--continue-on-collection-errors"],
                   cwd=wt, timeout=1800)
            rec["pinned_suite"] = (t.stdout.strip().splitlines() or ["?"])[-1]
            for cid in checks:
                env = dict(os.environ, VERIF_REPO=wt, VERIF_EVIDENCE_DIR=os.path.join(scratch, "ev"),
                           VERIF_REPLAY_DIR=os.path.join(scratch, "rp"), VERIF_NO_SHRINK="1", VERIF_JOBS=opts.get("jobs", "12"))
                p = sh([os.path.join(VERIF, "check"), "run", cid], env=env, timeout=3600)
                rec["checks_run"] += 1
                lines = p.stdout.splitlines()
                if any(l.startswith("VIOLATION") for l in lines):
                    first = next((l.strip()[:300] for l in lines if l.startswith("  clause=")), "")
                    rec["alarms"].append({"check": cid, "first": first})
                    print(pid, cid, "ALARM", first[:200], flush=True)
                elif p.returncode != 0:
                    rec["harness_errors"].append({"check": cid, "tail": (p.stdout + p.stderr)[-300:]})
                    print(pid, cid, "harness error", (p.stdout + p.stderr)[-200:].replace("\n", " "), flush=True)
            print(pid, "done: %d checks, %d alarms" % (rec["checks_run"], len(rec["alarms"])), flush=True)
        finally:
            sh(["git", "-C", "/repo", "worktree", "remove", "--force", wt])
            shutil.rmtree(scratch, ignore_errors=True)
        out[pid] = rec
    path = os.path.join(pres, "results_latest.json")
    prev = json.load(open(path)) if os.path.exists(path) else {}
    prev.update(out)
    json.dump(prev, open(path, "w"), indent=1)


if __name__ == "__main__":
    main()
