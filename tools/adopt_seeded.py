#!/venv/bin/python
"""tools/adopt_seeded.py <PROP> <i> <checks-comma> [--runs=N]: evaluate /tmp/out_<PROP>/patch<i>.diff + demo<i>.py with
tools/eval_seeded.py and, when the change is confirmed (demo passes on pristine / fails on patched, pinned suite at
baseline), store it as /verif/seeded/<PROP>-<i>/ {patch.diff, demo.py, meta.json}."""
import json
import os
import re
import shutil
import subprocess
import sys

VERIF = os.path.dirname(os.path.dirname(os.path.abspath(__file__)))
prop, i, checks = sys.argv[1], sys.argv[2], sys.argv[3]
extra = [a for a in sys.argv[4:]]
src = "/tmp/out_%s" % prop
patch, demo = "%s/patch%s.diff" % (src, i), "%s/demo%s.py" % (src, i)
p = subprocess.run([os.path.join(VERIF, "tools", "eval_seeded.py"), patch, demo, "--checks=" + checks] + extra, capture_output=True, text=True)
out = p.stdout
j = out[out.index("\n{") + 1:] if "\n{" in out else out[out.index("{"):]
rep = json.loads(j)
ok = rep.get("applies") and rep.get("demo_pristine", {}).get("exit") == 0 and rep.get("demo_patched", {}).get("exit") == 1 \
    and "641 passed" in rep.get("pinned_suite", "")
print("%s-%s confirmed=%s suite=%s demo=%s/%s" % (prop, i, ok, rep.get("pinned_suite"), rep.get("demo_pristine", {}).get("exit"), rep.get("demo_patched", {}).get("exit")))
for c, r in rep["checks"].items():
    print("   %s: %s %s" % (c, "CAUGHT" if r["caught"] else "missed", r["first"][:200]))
if ok:
    d = os.path.join(VERIF, "seeded", "%s-%s" % (prop, i))
    os.makedirs(d, exist_ok=True)
    shutil.copy(patch, os.path.join(d, "patch.diff"))
    shutil.copy(demo, os.path.join(d, "demo.py"))
    notes = ""
    if os.path.exists(src + "/notes.md"):
        notes = open(src + "/notes.md").read()
    meta_path = os.path.join(d, "meta.json")
    meta = json.load(open(meta_path)) if os.path.exists(meta_path) else {}
    meta.update({
        "property": prop, "source": "independent sub-agent given only the property text and a scratch worktree",
        "what_i_ran": "tools/eval_seeded.py: demo on pristine worktree (exit %s) and patched worktree (exit %s); pinned suite on patched: %s; checks through VERIF_REPO=<patched worktree>" % (
            rep["demo_pristine"]["exit"], rep["demo_patched"]["exit"], rep["pinned_suite"]),
        "needs_to_manifest": meta.get("needs_to_manifest", ""),
        "checks": {c: {"caught": r["caught"], "first_violation": r["first"][:300]} for c, r in {**meta.get("checks_raw", {}), **rep["checks"]}.items()},
        "agent_notes": notes[:6000],
    })
    meta["checks_raw"] = {**meta.get("checks_raw", {}), **rep["checks"]}
    json.dump(meta, open(meta_path, "w"), indent=1)
